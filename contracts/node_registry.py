"""C03 / C14 (registry part): lookup, unregistering and replace on the ghost registry REG.

REG mirrors NODE_REGISTRY (a WeakValueDictionary, modelled as a dict over live objects).
Each operation's postcondition states the *whole* new registry, so the frame on all other entries
is part of the obligation (a detached node's second detach_self must not evict a live twin)."""
from __future__ import annotations

import z3

from pyvc.contract import Contract, Loop, Registry
from pyvc.maps import VMap
from pyvc.specfn import SpecLib
from pyvc.symex import World
from pyvc.values import NONE, STR, V, VBool, VPy, VU, seq_of

from .node_common import M, NodeVocab


def build():
    reg = Registry()
    world = World(reg)
    lib = SpecLib()
    nv = NodeVocab(world, lib)
    REG, REF, INFO = nv.REG, nv.REF, nv.INFO
    desc = lib.fn("desc", [REF], seq_of(INFO))
    world.spec_fns["desc"] = desc

    def unreg1_t(r, n):
        return z3.If(z3.Select(r, nv.f_id(n)) == REG.opt.some(REF.wrap(n)).term, z3.Store(r, nv.f_id(n), REG.opt.none().term), r)

    world.spec_fns["unreg1"] = lambda r, n: VMap(unreg1_t(r.term, n.term), REG)
    unreg_all = lib.fn("unreg_all", [REG, seq_of(INFO)], REG)
    world.spec_fns["unreg_all"] = unreg_all

    @unreg_all.rule("unreg_all-empty", 1, "empty")
    def _(args, parts):
        return args[0]

    @unreg_all.rule("unreg_all-snoc", 1, "snoc")
    def _(args, parts):
        s, x = parts
        return unreg1_t(unreg_all.t(args[0], s), INFO.get(x, "node").term)

    G = {"NODE_REGISTRY": "Dict[str,Ref]"}
    A = reg.add
    P3 = ["C03"]
    # ---- lookup -----------------------------------------------------------------------------------
    A(Contract(f"{M}:ASTNode.get_any", params={"cls": "Cls", "id": "str", "default": "Opt[Ref]"}, returns="Opt[Ref]", globals=G, props=P3,
               ensures=["result == (reg_get(NODE_REGISTRY, id) if reg_get(NODE_REGISTRY, id) is not None else default)",
                        "NODE_REGISTRY == old(NODE_REGISTRY)"]))
    A(Contract(f"{M}:ASTNode.get", params={"cls": "Cls", "id": "str", "default": "Opt[Ref]", "strict": "bool"}, returns="Opt[Ref]", globals=G, props=P3,
               ensures=["implies(reg_get(NODE_REGISTRY, id) is None, result == default)",
                        "implies(reg_get(NODE_REGISTRY, id) is not None and strict, result == (reg_get(NODE_REGISTRY, id) if cls_of(reg_get(NODE_REGISTRY, id)) == cls else default))",
                        "implies(reg_get(NODE_REGISTRY, id) is not None and not strict, result == (reg_get(NODE_REGISTRY, id) if subclass(cls_of(reg_get(NODE_REGISTRY, id)), cls) else default))",
                        "NODE_REGISTRY == old(NODE_REGISTRY)"]))
    # ---- unregistering ----------------------------------------------------------------------------
    unreg_post = ["result == registered(old(NODE_REGISTRY), {n})",
                  "NODE_REGISTRY == unreg1(old(NODE_REGISTRY), {n})",
                  # spelled out: only the node's own entry may change, and only if it is the node itself
                  "implies(not registered(old(NODE_REGISTRY), {n}), NODE_REGISTRY == old(NODE_REGISTRY))",
                  "implies(registered(old(NODE_REGISTRY), {n}), NODE_REGISTRY == reg_remove(old(NODE_REGISTRY), {n}.id))"]
    A(Contract(f"{M}:_unregister", params={"node": "Ref"}, returns="bool", globals=G, modifies=["NODE_REGISTRY"], props=["C03", "C14"],
               ensures=[e.format(n="node") for e in unreg_post]))
    A(Contract(f"{M}:ASTNode.detach_self", params={"self": "Ref"}, returns="bool", globals=G, modifies=["NODE_REGISTRY"], props=["C03", "C14"],
               ensures=[e.format(n="self") for e in unreg_post]))
    A(Contract(f"{M}:ASTNode.dfs", params={"self": "Ref", "prune": "Opt[Fn]", "filter": "Opt[Fn]", "bottom_up": "bool"}, returns="Seq[Info]",
               globals={}, props=P3, trusted=True, trusted_reason="proved under C05 (contracts.node_traversal): with no prune/filter the output is the pre-order stream of all proper-descendant positions, named desc(self) here",
               ensures=["implies(prune is None and filter is None and not bottom_up, result == desc(self))"]))
    A(Contract(f"{M}:ASTNode.detach", params={"self": "Ref"}, globals=G, modifies=["NODE_REGISTRY"], props=P3,
               ensures=["NODE_REGISTRY == unreg_all(unreg1(old(NODE_REGISTRY), self), desc(self))"],
               loops={1: Loop(inv=["NODE_REGISTRY == unreg_all(unreg1(old(NODE_REGISTRY), self), done1)", "seq1 == desc(self)"])}))
    # ---- replace -----------------------------------------------------------------------------------
    KW = __import__("pyvc.values", fromlist=["usort"]).usort("Kwargs")
    newid = z3.Function("fresh_id_in", REG.z3(), REF.z3(), z3.StringSort())  # the id a construction yields
    A(Contract("dataclasses:replace", params={"obj": "Ref", "changes": "Kwargs"}, returns="Ref", globals=G, modifies=["NODE_REGISTRY"], props=["C03", "C14"],
               trusted=True, trusted_reason="dataclasses.replace = construction of a new instance of the same class: __post_init__ registers it under an id that was free (proved for __post_init__ separately); a rejected construction leaves the registry unchanged (assumed: the library's __post_init__ registers as its last step)",
               raises=[("Exception", "*")],
               exc_ensures=["NODE_REGISTRY == old(NODE_REGISTRY)"],
               ensures=["reg_get(old(NODE_REGISTRY), result.id) is None",
                        "NODE_REGISTRY == reg_set(old(NODE_REGISTRY), result.id, result)",
                        "cls_of(result) == cls_of(obj)", "result != obj", "result.id == fresh_id_in(old(NODE_REGISTRY), result)"]))
    world.spec_fns["fresh_id_in"] = lambda r, n: __import__("pyvc.values", fromlist=["VStr"]).VStr(newid(r.term, nv.ref(n)))

    def call(m, func, args, kwargs, node):
        if isinstance(func, VPy) and func.obj == ("builtin", "replace"):
            kw = kwargs.get("**", KW.fresh("kw"))
            return m.call_contract("dataclasses:replace", [args[0], kw], {})
        return NotImplemented

    world.call_hooks.append(call)
    A(Contract(f"{M}:ASTNode.replace", params={"self": "Ref", "kwargs": "Kwargs"}, returns="Ref", globals=G, modifies=["NODE_REGISTRY"], props=["C03", "C14"],
               may_raise=["Exception"],
               exc_ensures=["NODE_REGISTRY == old(NODE_REGISTRY)"],
               ensures=["reg_get(unreg1(old(NODE_REGISTRY), self), result.id) is None",
                        "NODE_REGISTRY == reg_set(unreg1(old(NODE_REGISTRY), self), result.id, result)",
                        "cls_of(result) == cls_of(self)", "result != self",
                        "result.id == fresh_id_in(unreg1(old(NODE_REGISTRY), self), result)"],
               note="fresh_id_in(R, n) is the id a construction of n assigns under registry R (the __post_init__ rule, proved under C01/C03: the digest when free, else a free "
                    "collision-suffixed key); replace constructs under the registry with the original absent"))
    # ---- unique ids --------------------------------------------------------------------------------
    A(Contract(f"{M}:_get_next_unique_id", params={"id_": "str"}, returns="str", globals=G, props=P3,
               ensures=["reg_get(NODE_REGISTRY, result) is None",
                        "result == old(id_) or (i > 1 and result == old(id_) + '_' + str(i - 1))",
                        "NODE_REGISTRY == old(NODE_REGISTRY)"],
               loops={1: Loop(inv=["i >= 1", "original_id == old(id_)",
                                   "(i == 1 and id_ == original_id) or (i > 1 and id_ == original_id + '_' + str(i - 1))",
                                   "NODE_REGISTRY == old(NODE_REGISTRY)"])},
               note="termination is argued (finite registry, i -> id_i injective), not machine-checked"))
    return world, lib, reg, []
