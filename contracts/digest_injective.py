"""C01 (injectivity of the digest input): peel lemmas over the piece templates read off __post_init__.

Each lemma says: one variable component followed by its delimiter can be split off uniquely.  They
are pure string VCs (z3 seq solver first, /usr/bin/cvc5 --strings-exp on unknown).  The value
component is only uniquely delimited outside the open finding KF-C01-separator (chi: str(value)
contains the two characters '):'), which is the hypothesis of lemma value-delimited."""
from __future__ import annotations

import z3

from pyvc.contract import Registry
from pyvc.specfn import SpecLib
from pyvc.symex import World
from pyvc.verify import Lemma

S = z3.StringVal


def build():
    reg = Registry()
    world = World(reg)
    lib = SpecLib()
    c1, c2, x1, x2 = z3.Strings("c1 c2 X1 X2")
    nocontain = lambda s, ch: z3.Not(z3.Contains(s, S(ch)))
    startc = lambda s, ch: z3.Or(s == S(""), z3.PrefixOf(S(ch), s))
    P = ["C01"]
    L = []

    def lemma(name, hyps, goal, note):
        L.append(Lemma(name, [("all", lambda bank, h=hyps, g=goal: (h, g))], P, note=note, prefer_cvc5=True))

    both = lambda: z3.And(c1 == c2, x1 == x2)
    lemma("enc[class-name]", [nocontain(c1, ":"), nocontain(c2, ":"), startc(x1, ":"), startc(x2, ":"), z3.Concat(c1, x1) == z3.Concat(c2, x2)], both(),
          "class names are identifiers (no ':'); the first piece starts with ':'")
    lemma("enc[field-name]", [nocontain(c1, "="), nocontain(c2, "="), z3.Concat(c1, S("="), x1) == z3.Concat(c2, S("="), x2)], both(),
          "field names are identifiers (no '='), delimiter '='")
    lemma("enc[property-vs-child]", [nocontain(c1, "="), nocontain(c1, "["), nocontain(c2, "="), nocontain(c2, "["),
                                     z3.Concat(c1, S("="), x1) == z3.Concat(c2, S("["), x2)], z3.BoolVal(False),
          "a property piece (name=) cannot be read as a child piece (name[)")
    lemma("enc[value-typed]", [nocontain(c1, "("), nocontain(c2, "("), z3.Concat(c1, S("("), x1) == z3.Concat(c2, S("("), x2)], both(),
          "str(type(v)) contains no '(' (assumed), delimiter '('")
    lemma("enc[value-delimited]", [nocontain(c1, "):"), nocontain(c2, "):"), startc(x1, ":"), startc(x2, ":"),
                                   z3.Concat(c1, S(")"), x1) == z3.Concat(c2, S(")"), x2)], both(),
          "outside chi of KF-C01-separator: a value without '):' ends at the first ')' that is followed by ':' or the end")
    lemma("enc[child-index]", [nocontain(c1, "]"), nocontain(c2, "]"), z3.Concat(c1, S("]="), x1) == z3.Concat(c2, S("]="), x2)], both(),
          "the index is digits or -1 (no ']'), delimiter ']='")
    lemma("enc[child-digest]", [z3.Length(c1) == z3.Length(c2), z3.Concat(c1, x1) == z3.Concat(c2, x2)], both(),
          "child content_ids are hex digests of one fixed length")
    i1, i2 = z3.Ints("i1 i2")
    lemma("enc[index-injective]", [i1 >= 0, i2 >= 0, z3.IntToStr(i1) == z3.IntToStr(i2)], i1 == i2, "str(int) is injective on indices")
    L[-1].prefer_cvc5 = False  # z3 decides from_int injectivity at once, cvc5 does not
    return world, lib, reg, L
