"""C11 (the per-class caches of pyoak.types): the three tables are filled together, once per class, with exactly what
process_node_fields returns for that very class, and the getters return the cached entry.

Tables are abstract values (Table); pnf_children(c) / pnf_props(c) name the two results of process_node_fields(c, ASTNode)
(proved in contracts.classify_area), merged(a, b) the dict display {**a, **b}.  Cache invariant, stated pointwise for an
arbitrary class g (ghost parameter):   g cached in one table  <=>  cached in all three, with the entries of g."""
from __future__ import annotations

import z3

from pyvc.contract import Contract, Registry
from pyvc.maps import map_sort
from pyvc.specfn import SpecLib
from pyvc.symex import RaiseSig, World
from pyvc.values import BOOL, EngineError, V, VBool, VCls, VExc, VOpt, VPy, VTuple, VU, fresh_name, usort

TM = "pyoak.types"


def build():
    reg = Registry()
    world = World(reg)
    lib = SpecLib()
    NCLS, TAB = usort("NodeClassObj"), usort("Table")
    pnf_c = z3.Function("pnf_children", NCLS.z3(), TAB.z3())
    pnf_p = z3.Function("pnf_props", NCLS.z3(), TAB.z3())
    merged = z3.Function("merged_tables", TAB.z3(), TAB.z3(), TAB.z3())
    rejects = z3.Function("pnf_rejects", NCLS.z3(), z3.BoolSort())
    CM = map_sort(NCLS, TAB)
    sf = world.spec_fns
    sf.update({"pnf_children": lambda c: TAB.wrap(pnf_c(c.term)), "pnf_props": lambda c: TAB.wrap(pnf_p(c.term)),
               "merged_tables": lambda a, b: TAB.wrap(merged(TAB.coerce(a).term, TAB.coerce(b).term)), "pnf_rejects": lambda c: VBool(rejects(c.term)),
               "cget": lambda mp, k: VOpt(z3.Select(mp.term, k.term), CM.opt)})
    G = {"_TYPE_TO_ALL_FIELDS": "Dict[NodeClassObj,Table]", "_TYPE_TO_CHILD_FIELDS": "Dict[NodeClassObj,Table]", "_TYPE_TO_PROPS": "Dict[NodeClassObj,Table]"}

    def call(m, func, a, kw, nd):
        if isinstance(func, VPy) and func.obj == ("process_node_fields",):
            c = NCLS.coerce(a[0])
            if m.ctx.branch(rejects(c.term)):
                raise RaiseSig(VExc("InvalidFieldAnnotations"))
            return VTuple([TAB.wrap(pnf_c(c.term)), TAB.wrap(pnf_p(c.term))])
        return NotImplemented

    def dict_display(m, e, hint):
        if len(e.keys) == 2 and e.keys[0] is None and e.keys[1] is None:
            return TAB.wrap(merged(TAB.coerce(m.eval(e.values[0])).term, TAB.coerce(m.eval(e.values[1])).term))
        return None

    world.call_hooks.insert(0, call)
    world.dict_display_hook = dict_display
    world.name_hooks.append(lambda m, n: VPy(("process_node_fields",)) if n == "process_node_fields" else (VCls("ASTNode") if n == "ASTNode" else None))
    world.exc_parents["InvalidFieldAnnotations"] = "Exception"
    A = reg.add
    P = ["C11"]
    ENTRY = ("implies(cget({T}, g) is not None, cget({T}, g) == {V})")
    INV = [ENTRY.format(T="_TYPE_TO_CHILD_FIELDS", V="pnf_children(g)"), ENTRY.format(T="_TYPE_TO_PROPS", V="pnf_props(g)"),
           ENTRY.format(T="_TYPE_TO_ALL_FIELDS", V="merged_tables(pnf_children(g), pnf_props(g))"),
           "(cget(_TYPE_TO_CHILD_FIELDS, g) is None) == (cget(_TYPE_TO_PROPS, g) is None)", "(cget(_TYPE_TO_CHILD_FIELDS, g) is None) == (cget(_TYPE_TO_ALL_FIELDS, g) is None)"]
    UNCH = ["_TYPE_TO_ALL_FIELDS == old(_TYPE_TO_ALL_FIELDS)", "_TYPE_TO_CHILD_FIELDS == old(_TYPE_TO_CHILD_FIELDS)", "_TYPE_TO_PROPS == old(_TYPE_TO_PROPS)"]
    A(Contract(f"{TM}:_populate_type_dicts", params={"cls": "NodeClassObj"}, props=P, globals=G, ghost={"g": "NodeClassObj"}, modifies=list(G),
               requires=INV, raises=[("InvalidFieldAnnotations", "pnf_rejects(cls)")], exc_ensures=UNCH,
               ensures=INV + ["cget(_TYPE_TO_CHILD_FIELDS, cls) == pnf_children(cls)", "cget(_TYPE_TO_PROPS, cls) == pnf_props(cls)",
                              "cget(_TYPE_TO_ALL_FIELDS, cls) == merged_tables(pnf_children(cls), pnf_props(cls))",
                              "implies(g != cls, cget(_TYPE_TO_CHILD_FIELDS, g) == cget(old(_TYPE_TO_CHILD_FIELDS), g) and cget(_TYPE_TO_PROPS, g) == cget(old(_TYPE_TO_PROPS), g) "
                              "and cget(_TYPE_TO_ALL_FIELDS, g) == cget(old(_TYPE_TO_ALL_FIELDS), g))"],
               note="a rejected class leaves the three tables untouched; otherwise exactly the entries of this class are written, with the results of process_node_fields for this class"))
    for fn, tab, val in (("get_cls_all_fields", "_TYPE_TO_ALL_FIELDS", "merged_tables(pnf_children(cls), pnf_props(cls))"),
                         ("get_cls_child_fields", "_TYPE_TO_CHILD_FIELDS", "pnf_children(cls)"), ("get_cls_props", "_TYPE_TO_PROPS", "pnf_props(cls)")):
        A(Contract(f"{TM}:{fn}", params={"cls": "NodeClassObj"}, returns="Table", props=P, globals=G, ghost={"g": "NodeClassObj"}, modifies=list(G),
                   requires=INV + [i.replace("(g)", "(cls)").replace(", g)", ", cls)") for i in INV],
                   raises=[("InvalidFieldAnnotations", f"cget({tab}, cls) is None and pnf_rejects(cls)")], exc_ensures=UNCH,
                   ensures=INV + [f"result == {val}", f"implies(cget(old({tab}), cls) is not None, " + " and ".join(UNCH) + ")"],
                   note="the classification of this very class, computed at first use and returned from the cache afterwards; a cached class never touches the tables"))
    world.trusted_notes.append('process_node_fields(cls, ASTNode) is a deterministic function of the class (pnf_children / pnf_props / pnf_rejects); {**a, **b} is merged_tables(a, b)')
    return world, lib, reg, []
