"""C18 / C20 (basis): the child enumeration of the legacy nodes, by reflection over the dataclass fields.

Every other legacy area treats `get_child_nodes()` / `get_child_nodes_with_field()` as the definition of lkids / lkidsf.  Here the two generators, and the
run-time test `_is_field_child` they share, are verified against an explicit flattening over the fields, and the two enumerations are proved to list the same
nodes in the same order (lemma nodes-of-positions).

Model of what reflection returns (all uninterpreted, per node):
  lfields(n) : Seq[Fld]                  dataclasses.fields(n), declaration order
  fval(n, f) : FV                        getattr(n, f.name); a field value is None, a node, a list / tuple of values (items), or anything else
  declared_child(n, f)                   f.name in type(n).get_child_fields()  -- the static, annotation-based table
  is_child_field(n, f)  =  f.init and ( declared_child(n, f)            if the value is None or an empty list / tuple
                                        True                              if it is a node
                                        some item is a node               if it is a list / tuple
                                        False                             otherwise )
  lkids(n)  = concat over f in lfields(n) with is_child_field(n, f) of  the item nodes / the single node
  lkidsf(n) = the same with (node, f, index) resp. (node, f, None)
Precondition children_well_typed(n): a child field holds nodes only (a list mixing nodes and other values trips the `assert` in both generators)."""
from __future__ import annotations

import z3

from pyvc.contract import Contract, Loop, Registry
from pyvc.core import mk_cons, mk_snoc
from pyvc.specfn import SpecLib
from pyvc.symex import World
from pyvc.values import BOOL, INT, EngineError, VBool, VCls, VInt, VNone, VOpt, VPy, VSeq, VStr, VTuple, VU, opt_of, seq_of, usort
from pyvc.verify import Lemma

from .node_common import NodeVocab

LM = "pyoak.legacy.node"


def build():
    reg = Registry()
    world = World(reg)
    lib = SpecLib()
    nv = NodeVocab(world, lib)
    REF, FLD, CPOS = nv.REF, nv.FLD, nv.CPOS
    FV = usort("FieldValue")
    OFV, OINT = opt_of(FV), opt_of(INT)
    SR, SF, SV, SC = seq_of(REF), seq_of(FLD), seq_of(FV), seq_of(CPOS)
    world.usort_class["Ref"] = "AwareASTNode"
    world.class_parents["AwareASTNode"] = []
    world.class_module["AwareASTNode"] = LM
    lfields = z3.Function("lfields", REF.z3(), SF.z3())
    fval = z3.Function("fval", REF.z3(), FLD.z3(), FV.z3())
    declared = z3.Function("declared_child", REF.z3(), FLD.z3(), z3.BoolSort())
    f_init = z3.Function("field_init", FLD.z3(), z3.BoolSort())
    is_none, is_node, is_list, is_tuple = (z3.Function(n, FV.z3(), z3.BoolSort()) for n in ("fv_is_none", "fv_is_node", "fv_is_list", "fv_is_tuple"))
    is_seq = lambda v: z3.Or(is_list(v), is_tuple(v))
    node_of = z3.Function("fv_node", FV.z3(), REF.z3())
    items = z3.Function("fv_items", FV.z3(), SV.z3())
    field_of_name = z3.Function("field_of_name", z3.StringSort(), FLD.z3())
    EV, ER, EC = z3.Empty(SV.z3()), z3.Empty(SR.z3()), z3.Empty(SC.z3())
    mkpos = lambda n, f, i: CPOS.mk(REF.wrap(n), FLD.wrap(f), VOpt(i, OINT)).term

    any_node = lib.fn("any_item_is_node", [SV], BOOL)
    any_node.rule("any_node-empty", 0, "empty")(lambda a, p: z3.BoolVal(False))
    any_node.rule("any_node-snoc", 0, "snoc")(lambda a, p: z3.Or(any_node.t(p[0]), is_node(p[1])))
    any_node.rule("any_node-concat", 0, "concat", "lemma")(lambda a, p: z3.Or(any_node.t(p[0]), any_node.t(p[1])))
    all_node = lib.fn("all_items_are_nodes", [SV], BOOL)
    all_node.rule("all_node-empty", 0, "empty")(lambda a, p: z3.BoolVal(True))
    all_node.rule("all_node-snoc", 0, "snoc")(lambda a, p: z3.And(all_node.t(p[0]), is_node(p[1])))
    all_node.rule("all_node-concat", 0, "concat", "lemma")(lambda a, p: z3.And(all_node.t(p[0]), all_node.t(p[1])))
    nodes_of = lib.fn("item_nodes", [SV], SR)
    nodes_of.rule("item_nodes-empty", 0, "empty")(lambda a, p: ER)
    nodes_of.rule("item_nodes-snoc", 0, "snoc")(lambda a, p: mk_snoc(nodes_of.t(p[0]), node_of(p[1])))
    pos_of = lib.fn("item_positions", [SV, FLD], SC)
    pos_of.rule("item_positions-empty", 0, "empty")(lambda a, p: EC)
    pos_of.rule("item_positions-snoc", 0, "snoc")(lambda a, p: mk_snoc(pos_of.t(p[0], a[1]), mkpos(node_of(p[1]), a[1], OINT.some(VInt(z3.Length(p[0]))).term)))

    def ensure_items(v):           # _ensure_iterable(getattr(...)) for a value that is not the Python None object wrapped: None -> [], list / tuple -> items, else [v]
        return z3.If(is_none(v), EV, z3.If(is_seq(v), items(v), z3.Unit(v)))

    def is_child(n, f):
        v = fval(n, f)
        return z3.And(f_init(f), z3.If(z3.Or(is_none(v), z3.And(is_seq(v), z3.Length(items(v)) == 0)), declared(n, f),
                                       z3.If(is_seq(v), any_node.t(ensure_items(v)), is_node(v))))

    def field_kids(n, f):
        v = fval(n, f)
        return z3.If(is_child(n, f), z3.If(is_seq(v), nodes_of.t(items(v)), z3.If(is_none(v), ER, z3.Unit(node_of(v)))), ER)

    def field_kidsf(n, f):
        v = fval(n, f)
        return z3.If(is_child(n, f), z3.If(is_seq(v), pos_of.t(items(v), f), z3.If(is_none(v), EC, z3.Unit(mkpos(node_of(v), f, OINT.none().term)))), EC)

    def field_wt(n, f):
        v = fval(n, f)
        return z3.Implies(is_child(n, f), z3.If(is_seq(v), all_node.t(items(v)), z3.Or(is_none(v), is_node(v))))

    kids_over = lib.fn("kids_over", [REF, SF], SR)
    kids_over.rule("kids_over-empty", 1, "empty")(lambda a, p: ER)
    kids_over.rule("kids_over-snoc", 1, "snoc")(lambda a, p: z3.Concat(kids_over.t(a[0], p[0]), field_kids(a[0], p[1])))
    kidsf_over = lib.fn("kidsf_over", [REF, SF], SC)
    kidsf_over.rule("kidsf_over-empty", 1, "empty")(lambda a, p: EC)
    kidsf_over.rule("kidsf_over-snoc", 1, "snoc")(lambda a, p: z3.Concat(kidsf_over.t(a[0], p[0]), field_kidsf(a[0], p[1])))
    wt_over = lib.fn("well_typed_over", [REF, SF], BOOL)
    wt_over.rule("wt_over-empty", 1, "empty")(lambda a, p: z3.BoolVal(True))
    wt_over.rule("wt_over-snoc", 1, "snoc")(lambda a, p: z3.And(wt_over.t(a[0], p[0]), field_wt(a[0], p[1])))
    wt_over.rule("wt_over-concat", 1, "concat", "lemma")(lambda a, p: z3.And(wt_over.t(a[0], p[0]), wt_over.t(a[0], p[1])))
    cpos_nodes = lib.fn("position_nodes", [SC], SR)
    cpos_nodes.rule("position_nodes-empty", 0, "empty")(lambda a, p: ER)
    cpos_nodes.rule("position_nodes-snoc", 0, "snoc")(lambda a, p: mk_snoc(cpos_nodes.t(p[0]), CPOS.get(CPOS.wrap(p[1]).term, "child").term))
    cpos_nodes.rule("position_nodes-concat", 0, "concat", "lemma")(lambda a, p: z3.Concat(cpos_nodes.t(p[0]), cpos_nodes.t(p[1])))
    cpos_nodes.rule("nodes-of-item-positions", 0, "app:item_positions", "lemma")(lambda a, p: nodes_of.t(p[0]))
    # FV kinds are exclusive; a node value is not a list
    world.axioms.append(z3.BoolVal(True))

    def kind_axioms(formulas):
        out, seen, stack = [], set(), list(formulas)
        while stack:
            f = stack.pop()
            if not z3.is_app(f) or f.get_id() in seen:
                continue
            seen.add(f.get_id())
            if f.sort() == FV.z3() and f.decl().kind() != z3.Z3_OP_ITE:
                out.append(z3.And(z3.Not(z3.And(is_none(f), is_node(f))), z3.Not(z3.And(is_none(f), is_seq(f))), z3.Not(z3.And(is_node(f), is_seq(f)))))
            stack.extend(f.children())
        return out

    lib.extra_instantiators.append(kind_axioms)
    sf = world.spec_fns
    fvt = lambda v: FV.coerce(v).term if not isinstance(v, VOpt) else OFV.val(v.term)
    sf.update({"any_item_is_node": any_node, "all_items_are_nodes": all_node, "item_nodes": nodes_of, "item_positions": pos_of, "kids_over": kids_over,
               "kidsf_over": kidsf_over, "well_typed_over": wt_over, "position_nodes": cpos_nodes,
               "lfields": lambda n: SF.wrap(lfields(nv.ref(n))),
               "fval": lambda n, f: FV.wrap(fval(nv.ref(n), f.term)),
               "is_child_field": lambda n, f: VBool(is_child(nv.ref(n), f.term)),
               "ensure_items": lambda v: SV.wrap(z3.If(OFV.is_none(v.term), EV, ensure_items(OFV.val(v.term)))) if isinstance(v, VOpt) else SV.wrap(ensure_items(v.term)),
               "fv_items": lambda v: SV.wrap(items(fvt(v))),
               "lkids_def": lambda n: SR.wrap(kids_over.t(nv.ref(n), lfields(nv.ref(n)))),
               "lkidsf_def": lambda n: SC.wrap(kidsf_over.t(nv.ref(n), lfields(nv.ref(n)))),
               "children_well_typed": lambda n: VBool(wt_over.t(nv.ref(n), lfields(nv.ref(n))))})

    # ---- hooks: what reflection returns ----------------------------------------------------------------------------------------------
    def call(m, func, a, kw, nd):
        if isinstance(func, VPy) and func.obj == ("builtin", "getattr") and len(a) == 2 and isinstance(a[0], VU) and a[0].sort == REF and isinstance(a[1], VStr):
            t = a[1].term
            if z3.is_app(t) and t.decl().name() == "fname":
                return FV.wrap(fval(a[0].term, t.arg(0)))
            raise EngineError("getattr with a name that is not a field's name")
        if isinstance(func, VPy) and isinstance(func.obj, tuple) and func.obj[0] == "child_fields_method" and not a:
            return VPy(("child_field_table", func.obj[1]))      # the static table; only `name in table` is modelled (declared_child)
        if isinstance(func, VPy) and isinstance(func.obj, tuple) and func.obj[:1] == ("contract",) and func.obj[1].endswith(":fields") and len(a) == 1:
            return SF.wrap(lfields(REF.coerce(a[0]).term))
        return NotImplemented

    def name_hook(m, n):
        if n == "fields":
            return VPy(("contract", "dataclasses:fields"))
        if n in ("AwareASTNode",):
            return VCls(n)
        return None

    def attr(m, obj, name):
        if isinstance(obj, VU) and obj.sort == FLD and name == "init":
            return VBool(f_init(obj.term))
        if isinstance(obj, VU) and obj.sort == REF and name == "get_child_fields":
            return VPy(("child_fields_method", obj.term))
        return None

    def isinst(m, v, cls):
        if isinstance(v, VOpt) and v.sort == OFV:
            v = FV.wrap(OFV.val(v.term))
        if isinstance(v, VU) and v.sort == FV:
            names = [c.name for c in cls.items] if isinstance(cls, VTuple) else [getattr(cls, "name", None)]
            if sorted(names) == ["list", "tuple"]:
                return is_seq(v.term)
            if names == ["list"]:
                return is_list(v.term)
            if names == ["tuple"]:
                return is_tuple(v.term)
            if names == ["AwareASTNode"]:
                return is_node(v.term)
        return None

    def none_hook(m, v):
        if isinstance(v, VU) and v.sort == FV:
            return is_none(v.term)
        return None

    def py_in(m, container, x):
        # field.name in self.get_child_fields()
        if isinstance(container, VPy) and isinstance(container.obj, tuple) and container.obj[0] == "child_field_table" and isinstance(x, VStr):
            t = x.term
            if z3.is_app(t) and t.decl().name() == "fname":
                return declared(container.obj[1], t.arg(0))
        return None

    def coerce(m, v, sname):
        if sname in ("Seq[FieldValue]",) and isinstance(v, VU) and v.sort == FV:
            return SV.wrap(items(v.term))
        if sname == "Ref" and isinstance(v, VU) and v.sort == FV:
            return REF.wrap(node_of(v.term))
        if sname == "Opt[FieldValue]" and isinstance(v, VU) and v.sort == FV:
            return VOpt(z3.If(is_none(v.term), OFV.none().term, OFV.some(v).term), OFV)
        return None

    def len_of_fv(m, v):
        return None

    world.call_hooks.insert(0, call)
    world.name_hooks.append(name_hook)
    world.attr_hooks.insert(0, attr)
    world.isinstance_hooks.insert(0, isinst)
    world.none_hooks = getattr(world, "none_hooks", []) + [none_hook]
    world.contains_hooks = getattr(world, "contains_hooks", []) + [py_in]
    world.coerce_hooks = getattr(world, "coerce_hooks", []) + [coerce]
    world.iter_hooks = [lambda m, v: SV.wrap(items(v.term)) if isinstance(v, VU) and v.sort == FV else None]
    A = reg.add
    P = ["C18", "C20"]
    A(Contract(f"{LM}:AwareASTNode._ensure_iterable", params={"self": "Ref", "value": "FieldValue"}, returns="Seq[FieldValue]", props=P,
               ensures=["result == ensure_items(value)"], note="None -> no items, a list / tuple -> its items, anything else -> the value itself as the only item"))
    A(Contract(f"{LM}:AwareASTNode._is_field_child", params={"self": "Ref", "field": "Fld"}, returns="bool", props=P,
               ensures=["result == is_child_field(self, field)"],
               loops={1: Loop(inv=["not any_item_is_node(done1)", "seq1 == ensure_items(o)"])},
               note="run-time test: an init field whose value is a node or a list / tuple with a node in it; for None / empty the static table decides"))
    A(Contract(f"{LM}:AwareASTNode.get_child_nodes", params={"self": "Ref"}, returns="Seq[Ref]", generator=True, props=P,
               requires=["children_well_typed(self)"], ensures=["result == lkids_def(self)"],
               loops={1: Loop(inv=["out == kids_over(self, done1)", "seq1 == lfields(self)"]),
                      2: Loop(inv=["out == out_at2 + item_nodes(done2)", "seq2 == ensure_items(fval(self, f))", "all_items_are_nodes(seq2)"])},
               note="the child nodes in field order, list / tuple fields flattened in item order"))
    A(Contract(f"{LM}:AwareASTNode.get_child_nodes_with_field", params={"self": "Ref"}, returns="Seq[ChildPos]", generator=True, props=P,
               requires=["children_well_typed(self)"], ensures=["result == lkidsf_def(self)"],
               loops={1: Loop(inv=["out == kidsf_over(self, done1)", "seq1 == lfields(self)"]),
                      2: Loop(inv=["out == out_at2 + item_positions(done2, f)", "seq2 == fv_items(objects)", "all_items_are_nodes(seq2)"])},
               note="the same nodes with their field and, inside a list / tuple, their index (None for a single child)"))
    A(Contract(f"{LM}:AwareASTNode.children", params={"self": "Ref"}, returns="Seq[Ref]", props=P, requires=["children_well_typed(self)"],
               ensures=["result == lkids_def(self)"], note="property -- the child nodes as a list, in the order get_child_nodes yields them"))
    world.trusted_notes.append("dataclasses.fields(n) == lfields(n); getattr(n, f.name) == fval(n, f); a field value is exactly one of None / node / list-or-tuple / other; "
                               "`name in get_child_fields()` is the static predicate declared_child")
    return world, lib, reg, lemmas(lib, nv, dict(any_node=any_node, all_node=all_node, nodes_of=nodes_of, pos_of=pos_of, cpos_nodes=cpos_nodes, is_node=is_node, node_of=node_of,
                                                 SV=SV, SR=SR, SC=SC, FV=FV, FLD=FLD, wt_over=wt_over, kids_over=kids_over, kidsf_over=kidsf_over, field_wt=field_wt,
                                                 field_kids=field_kids, field_kidsf=field_kidsf, lfields=lfields, fval=fval, items=items, SF=SF, CPOS=CPOS, OINT=OINT, mkpos=mkpos))


def lemmas(lib, nv, d):
    REF = nv.REF
    g = d.get
    SV, SR, SC, SF, FV, FLD = g("SV"), g("SR"), g("SC"), g("SF"), g("FV"), g("FLD")
    any_node, all_node, nodes_of, pos_of, cpos_nodes, is_node = g("any_node"), g("all_node"), g("nodes_of"), g("pos_of"), g("cpos_nodes"), g("is_node")
    wt_over = g("wt_over")
    EV, ER, EC, EF = z3.Empty(SV.z3()), z3.Empty(SR.z3()), z3.Empty(SC.z3()), z3.Empty(SF.z3())
    x, y = z3.Const("x_l", FV.z3()), z3.Const("y_l", FV.z3())
    r, q = z3.Const("r_l", SV.z3()), z3.Const("q_l", SV.z3())
    n = z3.Const("n_l", REF.z3())
    f, f2 = z3.Const("f_l", FLD.z3()), z3.Const("f2_l", FLD.z3())
    fs, fq = z3.Const("fs_l", SF.z3()), z3.Const("fq_l", SF.z3())
    c1, c2 = z3.Const("c1_l", SC.z3()), z3.Const("c2_l", SC.z3())
    cp = z3.Const("cp_l", nv.CPOS.z3())
    L = []
    # any_node(r ++ q) by induction on q (snoc)
    L.append(Lemma("any_node-concat", [("base", lambda bank: ([], any_node.t(z3.Concat(r, EV)) == z3.Or(any_node.t(r), any_node.t(EV)))),
                                       ("step", lambda bank: ([any_node.t(z3.Concat(r, q)) == z3.Or(any_node.t(r), any_node.t(q))],
                                                              any_node.t(mk_snoc(z3.Concat(r, q), y)) == z3.Or(any_node.t(r), any_node.t(mk_snoc(q, y)))))], ["C18", "C20"]))
    # all_node(r ++ q) by induction on q (snoc)
    L.append(Lemma("all_node-concat", [("base", lambda bank: ([], all_node.t(z3.Concat(r, EV)) == z3.And(all_node.t(r), all_node.t(EV)))),
                                       ("step", lambda bank: ([all_node.t(z3.Concat(r, q)) == z3.And(all_node.t(r), all_node.t(q))],
                                                              all_node.t(mk_snoc(z3.Concat(r, q), y)) == z3.And(all_node.t(r), all_node.t(mk_snoc(q, y)))))], ["C18", "C20"]))
    L.append(Lemma("wt_over-concat", [("base", lambda bank: ([], wt_over.t(n, z3.Concat(fs, EF)) == z3.And(wt_over.t(n, fs), wt_over.t(n, EF)))),
                                      ("step", lambda bank: ([wt_over.t(n, z3.Concat(fs, fq)) == z3.And(wt_over.t(n, fs), wt_over.t(n, fq))],
                                                             wt_over.t(n, mk_snoc(z3.Concat(fs, fq), f)) == z3.And(wt_over.t(n, fs), wt_over.t(n, mk_snoc(fq, f)))))], ["C18", "C20"]))
    L.append(Lemma("position_nodes-concat", [("base", lambda bank: ([], cpos_nodes.t(z3.Concat(c1, EC)) == z3.Concat(cpos_nodes.t(c1), cpos_nodes.t(EC)))),
                                             ("step", lambda bank: ([cpos_nodes.t(z3.Concat(c1, c2)) == z3.Concat(cpos_nodes.t(c1), cpos_nodes.t(c2))],
                                                                    cpos_nodes.t(mk_snoc(z3.Concat(c1, c2), cp)) == z3.Concat(cpos_nodes.t(c1), cpos_nodes.t(mk_snoc(c2, cp)))))],
                   ["C18", "C20"]))
    # the two enumerations list the same nodes:  position_nodes(item_positions(r, f)) == item_nodes(r)   (induction on r)
    L.append(Lemma("nodes-of-item-positions", [("base", lambda bank: ([], cpos_nodes.t(pos_of.t(EV, f)) == nodes_of.t(EV))),
                                               ("step", lambda bank: ([cpos_nodes.t(pos_of.t(r, f)) == nodes_of.t(r)],
                                                                      cpos_nodes.t(pos_of.t(mk_snoc(r, y), f)) == nodes_of.t(mk_snoc(r, y))))], ["C18", "C20"]))
    # ... and field by field: position_nodes(kidsf_over(n, fs)) == kids_over(n, fs) for well-typed fields (induction on fs; uses the two lemmas above)
    kids_over, kidsf_over, field_wt = g("kids_over"), g("kidsf_over"), g("field_wt")
    fvalf, items, node_of, mkpos, OINT = g("fval"), g("items"), g("node_of"), g("mkpos"), g("OINT")
    v = fvalf(n, f)
    mention = lambda t: t == t       # puts a term into the VC so that the definition rules are instantiated at it (the solver splits the if-then-else itself)
    terms = [cpos_nodes.t(pos_of.t(items(v), f)), cpos_nodes.t(EC), cpos_nodes.t(z3.Unit(mkpos(node_of(v), f, OINT.none().term))), nodes_of.t(EV), nodes_of.t(items(v)),
             nodes_of.t(z3.Unit(v)), all_node.t(z3.Unit(v)), all_node.t(EV), any_node.t(z3.Unit(v)), any_node.t(EV)]
    L.append(Lemma("nodes-of-positions", [("base", lambda bank: ([], cpos_nodes.t(kidsf_over.t(n, EF)) == kids_over.t(n, EF))),
                                          ("step", lambda bank: ([cpos_nodes.t(kidsf_over.t(n, fs)) == kids_over.t(n, fs), wt_over.t(n, mk_snoc(fs, f))] + [mention(t) for t in terms],
                                                                 cpos_nodes.t(kidsf_over.t(n, mk_snoc(fs, f))) == kids_over.t(n, mk_snoc(fs, f))))], ["C18", "C20"],
                   uses=["position_nodes-concat", "nodes-of-item-positions", "all_node-concat"]))
    return L
