"""C18 / C19 (leaf functions of the legacy parent-aware nodes): the registry and the per-node parent slots.

Ghost view of the heap the legacy module mutates (all symbolic globals, updated by object.__setattr__ / dict operations):
  NODES : str -> Opt[Ref]      AwareASTNode._nodes (the registry of attached nodes)
  PID   : Ref -> Opt[str]      node._parent_id          PF : Ref -> Opt[Fld]   node._parent_field
  PI    : Ref -> Opt[int]      node._parent_index       XP : Ref -> Opt[str]   node._xpath
An absent entry is the attribute value None.  node.id is a function of the node here (the operations that rewrite ids --
replace_with and the constructor -- are not in this area and stay with the bounded history driver).
lkids(n) / lkidsf(n) are what get_child_nodes() / get_child_nodes_with_field() yield.
Only-removal effects of the recursive detach() are stated with the opaque predicates
  shrinks_n(N', N) : forall k.  N'[k] is None or N'[k] == N[k]        (and likewise shrinks_p for the parent-id slots)
which enter VCs through consequences proved once as quantified lemmas (reflexive, transitive, removal, elimination)."""
from __future__ import annotations

import z3

from pyvc.contract import Contract, Loop, Registry
from pyvc.core import mk_snoc
from pyvc.maps import VMap, map_sort, set_sort
from pyvc.specfn import SpecLib, new_subterms, subterms
from pyvc.symex import RaiseSig, World
from pyvc.values import BOOL, INT, NONE, STR, EngineError, V, VBool, VBound, VCls, VExc, VHeapRef, VNone, VOpt, VPy, VSeq, VStr, VU, fresh_name, opt_of, seq_of
from pyvc.verify import Lemma

from .node_common import NodeVocab

LM = "pyoak.legacy.node"


def build():
    reg = Registry()
    world = World(reg)
    lib = SpecLib()
    nv = NodeVocab(world, lib)
    REF, FLD, CPOS, CLS = nv.REF, nv.FLD, nv.CPOS, nv.CLS
    OREF, OSTR = opt_of(REF), opt_of(STR)
    SR, SC = seq_of(REF), seq_of(CPOS)
    world.usort_class["Ref"] = "AwareASTNode"
    world.class_parents["AwareASTNode"] = []
    world.class_module["AwareASTNode"] = LM
    NM, PM, FM, IM = map_sort(STR, REF), map_sort(REF, STR), map_sort(REF, FLD), map_sort(REF, INT)
    G = {"NODES": "Dict[str,Ref]", "PID": "Dict[Ref,str]", "PF": "Dict[Ref,Fld]", "PI": "Dict[Ref,int]", "XP": "Dict[Ref,str]"}
    SLOT = {"_parent_id": "PID", "_parent_field": "PF", "_parent_index": "PI", "_xpath": "XP"}
    lkids = lib.fn("lkids", [REF], SR)
    lkidsf = lib.fn("lkidsf", [REF], SC)
    sf = world.spec_fns
    sf["is_in"] = lambda s_, x: VBool(z3.Contains(SR.coerce(s_).term, z3.Unit(nv.ref(x))))
    sf.update({"lkids": lkids, "lkidsf": lkidsf,
               "mget": lambda mp, k: VOpt(z3.Select(mp.term, mp.sort.key.coerce(k).term), mp.sort.opt),
               "mdel": lambda mp, k: VMap(z3.Store(mp.term, mp.sort.key.coerce(k).term, mp.sort.opt.none().term), mp.sort),
               "mset": lambda mp, k, v: VMap(z3.Store(mp.term, mp.sort.key.coerce(k).term, mp.sort.opt.some(v).term), mp.sort)})

    def cell(m, g):
        return m.ctx.cell(m.global_syms[g].addr)

    def attr(m, obj, name):
        if isinstance(obj, VU) and obj.sort == REF and name in SLOT and not m.spec:
            c = cell(m, SLOT[name])
            return VOpt(z3.Select(c.value.term, obj.term), c.value.sort.opt)
        if isinstance(obj, VCls) and obj.name == "AwareASTNode" and name == "_nodes":
            return m.global_syms["NODES"]
        if isinstance(obj, VCls) and obj.name == "AwareASTNode" and name == "get_any":
            return VPy(("contract", f"{LM}:AwareASTNode.get_any"))
        return None

    def call(m, func, a, kw, nd):
        if isinstance(func, VPy) and func.obj == ("setattr",) and isinstance(a[0], VU) and a[0].sort == REF:
            nm = a[1].term.as_string() if isinstance(a[1], VStr) else a[1].obj
            if nm not in SLOT:
                raise EngineError(f"object.__setattr__ of {nm} on a legacy node is not modelled in this area")
            c = cell(m, SLOT[nm])
            ms = c.value.sort
            v = a[2]
            if isinstance(v, VNone):
                c.value = VMap(z3.Store(c.value.term, a[0].term, ms.opt.none().term), ms)
            elif isinstance(v, VOpt):
                c.value = VMap(z3.Store(c.value.term, a[0].term, ms.opt.coerce(v).term), ms)
            else:
                c.value = VMap(z3.Store(c.value.term, a[0].term, ms.opt.some(v).term), ms)
            return NONE
        if isinstance(func, VPy) and func.obj == ("contract", f"{LM}:AwareASTNode.get_any"):
            return m.call_contract(f"{LM}:AwareASTNode.get_any", [VPy("cls")] + a, kw)
        return NotImplemented

    world.attr_hooks.insert(0, attr)
    world.call_hooks.insert(0, call)
    world.name_hooks.append(lambda m, n: VCls(n) if n in ("AwareASTNode",) else None)
    for e in ("ASTNodeDuplicateChildrenError", "ASTNodeRegistryCollisionError", "ASTNodeParentCollisionError"):
        world.exc_parents[e] = "Exception"
    A = reg.add
    P18, P19, PB = ["C18"], ["C19"], ["C18", "C19"]
    UNCH = ["NODES == old(NODES)", "PID == old(PID)", "PF == old(PF)", "PI == old(PI)", "XP == old(XP)"]
    A(Contract(f"{LM}:AwareASTNode.get_child_nodes", params={"self": "Ref"}, returns="Seq[Ref]", props=PB, trusted=True, globals=G,
               trusted_reason="proved in contracts.legacy_children: the flattening of the child fields in field order (lkids_def), for well-typed children", ensures=["result == lkids(self)"] + UNCH))
    A(Contract(f"{LM}:AwareASTNode.get_child_nodes_with_field", params={"self": "Ref"}, returns="Seq[ChildPos]", props=PB, trusted=True, globals=G,
               trusted_reason="proved in contracts.legacy_children: the same nodes with field and index (lkidsf_def; lemma nodes-of-positions)", ensures=["result == lkidsf(self)"] + UNCH))
    # ---- lookups ---------------------------------------------------------------------------------------------------------
    A(Contract(f"{LM}:AwareASTNode.get_any", params={"cls": "py:cls", "id": "str", "default": "Opt[Ref]"}, returns="Opt[Ref]", props=P18, globals=G,
               ensures=["implies(mget(NODES, id) is not None, result == mget(NODES, id))", "implies(mget(NODES, id) is None, result == default)"] + UNCH,
               note="lookup returns the node registered under the id, the default otherwise; no effect"))
    A(Contract(f"{LM}:AwareASTNode.parent", params={"self": "Ref"}, returns="Opt[Ref]", props=P18, globals=G,
               ensures=["implies(mget(PID, self) is None, result is None)", "implies(mget(PID, self) is not None, result == mget(NODES, mget(PID, self)))"] + UNCH,
               note="property -- the node registered under the recorded parent id (None when there is none or it is no longer registered)"))
    A(Contract(f"{LM}:AwareASTNode.detached", params={"self": "Ref"}, returns="bool", props=P18, globals=G,
               ensures=["result == (mget(NODES, self.id) != self)"] + UNCH, note="property -- attached means: the registry maps the node's id to this very object"))
    ATT = "(mget(NODES, self.id) == self)"
    PAR = "(mget(PID, self) is not None and mget(NODES, mget(PID, self)) is not None)"
    A(Contract(f"{LM}:AwareASTNode.is_attached_root", params={"self": "Ref"}, returns="bool", props=P18, globals=G,
               ensures=[f"result == ({ATT} and not {PAR})"] + UNCH, note="property"))
    A(Contract(f"{LM}:AwareASTNode.is_attached_subtree", params={"self": "Ref"}, returns="bool", props=P18, globals=G,
               ensures=[f"result == ({ATT} and {PAR})"] + UNCH, note="property"))
    # ---- the parent slots --------------------------------------------------------------------------------------------------
    A(Contract(f"{LM}:AwareASTNode._clear_parent", params={"self": "Ref"}, props=PB, globals=G, modifies=["PID", "PF", "PI", "XP"],
               ensures=["PID == mdel(old(PID), self)", "PF == mdel(old(PF), self)", "PI == mdel(old(PI), self)", "XP == mdel(old(XP), self)", "NODES == old(NODES)"],
               note="exactly the four slots of this node are reset; no other node and not the registry"))
    A(Contract(f"{LM}:AwareASTNode._set_parent", params={"self": "Ref", "parent": "Ref", "field": "Fld", "index": "Opt[int]"}, props=PB, globals=G, modifies=["PID", "PF", "PI"],
               ensures=["PID == mset(old(PID), self, parent.id)", "PF == mset(old(PF), self, field)",
                        "implies(index is None, PI == mdel(old(PI), self))", "implies(index is not None, PI == mset(old(PI), self, index))", "NODES == old(NODES)", "XP == old(XP)"],
               note="exactly the three position slots of this node are written"))
    # ---- unique children ------------------------------------------------------------------------------------------------------
    IDS = set_sort(STR)
    ids_of = lib.fn("child_ids", [SC], IDS)
    has_dup = lib.fn("has_duplicate_child_id", [SC], BOOL)
    cid = lambda c: nv.f_id(CPOS.get(CPOS.wrap(c).term, "child").term)
    ids_of.rule("child_ids-empty", 0, "empty")(lambda a, p: IDS.empty().term)
    ids_of.rule("child_ids-snoc", 0, "snoc")(lambda a, p: z3.Store(ids_of.t(p[0]), cid(p[1]), z3.BoolVal(True)))
    has_dup.rule("has_dup-empty", 0, "empty")(lambda a, p: z3.BoolVal(False))
    has_dup.rule("has_dup-snoc", 0, "snoc")(lambda a, p: z3.Or(has_dup.t(p[0]), z3.Select(ids_of.t(p[0]), cid(p[1]))))
    has_dup.rule("has_dup-prefix", 0, "concat", "lemma", raw=True)(lambda a, p: z3.Implies(has_dup.t(p[0]), has_dup.t(z3.Concat(p[0], p[1]))))
    sf.update({"child_ids": ids_of, "has_duplicate_child_id": has_dup})
    A(Contract(f"{LM}:AwareASTNode._check_unique_children", params={"self": "Ref"}, props=PB, globals=G,
               locals={"seen": "Set[str]", "last_field_name": "str", "last_index": "Opt[int]"},
               raises=[("ASTNodeDuplicateChildrenError", "has_duplicate_child_id(lkidsf(self))")],
               ensures=UNCH, exc_ensures=UNCH,
               loops={1: Loop(inv=["seen == child_ids(done1)", "not has_duplicate_child_id(done1)"] + UNCH)},
               note="rejects exactly when two child positions hold nodes with the same id (the same object twice included); never changes anything"))
    # ---- detach ------------------------------------------------------------------------------------------------------------------
    shr_n = z3.Function("shrinks_n", NM.z3(), NM.z3(), z3.BoolSort())
    shr_p = z3.Function("shrinks_p", PM.z3(), PM.z3(), z3.BoolSort())
    shr_f = z3.Function("shrinks_f", FM.z3(), FM.z3(), z3.BoolSort())
    shr_i = z3.Function("shrinks_i", IM.z3(), IM.z3(), z3.BoolSort())
    SHR = {"shrinks_n": (shr_n, NM), "shrinks_p": (shr_p, PM), "shrinks_f": (shr_f, FM), "shrinks_i": (shr_i, IM)}
    for nm, (f, ms) in SHR.items():
        sf[nm] = (lambda f: lambda a, b: VBool(f(a.term, b.term)))(f)

    def shrink_instances(formulas):
        out = []
        fresh, st = new_subterms(formulas, "shrink")         # classification of the sub-terms is kept across the rounds of one VC
        apps = st.setdefault("apps", {k: [] for k in SHR})
        keys = st.setdefault("keys", {})
        allstores = st.setdefault("allstores", {})
        for f in fresh:
            nm = f.decl().name()
            if nm in apps:
                apps[nm].append(f)
            if f.decl().kind() in (z3.Z3_OP_STORE, z3.Z3_OP_SELECT):
                keys.setdefault(f.arg(0).sort().get_id(), {})[f.arg(1).get_id()] = f.arg(1)
            if f.decl().kind() == z3.Z3_OP_STORE:
                allstores.setdefault(f.sort().get_id(), {})[f.get_id()] = f
        done = set()

        def emit(x):
            if x.get_id() not in done:
                done.add(x.get_id())
                out.append(x)
        for nm, (f, ms) in SHR.items():
            none = ms.opt.none().term
            terms: dict[int, object] = {}
            for ap in apps[nm]:
                for t in (ap.arg(0), ap.arg(1)):
                    terms[t.get_id()] = t
                    if z3.is_app(t) and t.decl().kind() == z3.Z3_OP_STORE:
                        terms[t.arg(0).get_id()] = t.arg(0)
            for t in terms.values():
                emit(f(t, t))                                                                     # reflexive
                if z3.is_app(t) and t.decl().kind() == z3.Z3_OP_STORE and z3.is_app(t.arg(2)) and t.arg(2).eq(none):
                    emit(f(t, t.arg(0)))                                                          # a removal shrinks
            pairs_done = st.setdefault("pairs", set())
            info = [(a, a.get_id(), a.arg(0), a.arg(1)) for a in apps[nm]]
            for a, ia, a0, a1 in info:
                for b, ib, b0, b1 in info:
                    if (ia, ib) in pairs_done:
                        continue
                    pairs_done.add((ia, ib))
                    if a1.eq(b0):
                        emit(z3.Implies(z3.And(a, b), f(a0, b1)))                                 # transitive
                    elif ia != ib and ((z3.is_const(a1) and z3.is_app(b0) and b0.decl().kind() == z3.Z3_OP_STORE)
                                       or (z3.is_const(b0) and z3.is_app(a1) and a1.decl().kind() == z3.Z3_OP_STORE)):
                        # ... also when the middle maps are equal only semantically (a map named by a callee's postcondition `M == mdel(M0, k)`)
                        emit(z3.Implies(z3.And(a, b, a1 == b0), f(a0, b1)))
                    # removal composed: remove(k) of something that shrinks
            # every removal term over a base that is known to shrink something shrinks it too
            stores = [t for t in list(terms.values()) + [x for x in allstores.get(ms.z3().get_id(), {}).values()]
                      if z3.is_app(t) and t.decl().kind() == z3.Z3_OP_STORE and t.arg(2).eq(none)]
            for t in stores:
                emit(f(t, t.arg(0)))
                for ap in apps[nm]:
                    if ap.arg(0).eq(t.arg(0)):
                        emit(z3.Implies(ap, f(t, ap.arg(1))))
            elim_done = st.setdefault("elim", set())
            for ap in apps[nm]:
                hi, lo = ap.arg(0), ap.arg(1)
                iap = ap.get_id()
                for kid, k in keys.get(ms.z3().get_id(), {}).items():
                    if (iap, kid) in elim_done:
                        continue
                    elim_done.add((iap, kid))
                    emit(z3.Implies(ap, z3.Or(z3.Select(hi, k) == none, z3.Select(hi, k) == z3.Select(lo, k))))   # elimination
                if z3.is_app(hi) and hi.decl().kind() == z3.Z3_OP_STORE and hi.arg(2).eq(none):
                    emit(z3.Implies(f(hi.arg(0), lo), ap))                                        # removal after shrinking still shrinks
        return out

    lib.extra_instantiators.append(shrink_instances)
    # only_sub(N', N, n): the registry changed only at ids of nodes of n's tree  (forall k. N'[k] == N[k] or subtree_has_id(n, k)),
    # where subtree_has_id is any predicate closed under: n's own id; the ids of the subtrees of n's children.
    sub_id = z3.Function("subtree_has_id", REF.z3(), z3.StringSort(), z3.BoolSort())
    only_sub = z3.Function("only_subtree_ids_changed", NM.z3(), NM.z3(), REF.z3(), z3.BoolSort())
    no_sub = lib.fn("no_child_subtree_has_id", [SR, STR], BOOL)
    no_sub.rule("no_child_sub-empty", 0, "empty")(lambda a, p: z3.BoolVal(True))
    no_sub.rule("no_child_sub-snoc", 0, "snoc")(lambda a, p: z3.And(no_sub.t(p[0], a[1]), z3.Not(sub_id(p[1], a[1]))))
    no_sub.rule("no_child_sub-prefix", 0, "concat", "lemma", raw=True)(lambda a, p: z3.Implies(no_sub.t(z3.Concat(p[0], p[1]), a[1]), no_sub.t(p[0], a[1])))
    # acyclic(n): no proper descendant carries n's id, and the same below every child (recursive)
    acyc = lib.fn("acyclic_ids", [REF], BOOL)
    all_acyc = lib.fn("all_acyclic_ids", [SR], BOOL)
    # (stated over both enumerations of the children, get_child_nodes and get_child_nodes_with_field: the same nodes)
    no_sub_f = lib.fn("no_child_subtree_has_id_f", [SC, STR], BOOL)
    all_acyc_f = lib.fn("all_acyclic_ids_f", [SC], BOOL)
    ch = lambda c: CPOS.get(CPOS.wrap(c).term, "child").term
    acyc.rule("acyclic_ids-def", 0, "always")(lambda a, p: z3.And(no_sub.t(lkids.t(a[0]), nv.f_id(a[0])), all_acyc.t(lkids.t(a[0])),
                                                                no_sub_f.t(lkidsf.t(a[0]), nv.f_id(a[0])), all_acyc_f.t(lkidsf.t(a[0]))))
    no_sub_f.rule("no_child_sub_f-empty", 0, "empty")(lambda a, p: z3.BoolVal(True))
    no_sub_f.rule("no_child_sub_f-snoc", 0, "snoc")(lambda a, p: z3.And(no_sub_f.t(p[0], a[1]), z3.Not(sub_id(ch(p[1]), a[1]))))
    no_sub_f.rule("no_child_sub_f-prefix", 0, "concat", "lemma", raw=True)(lambda a, p: z3.Implies(no_sub_f.t(z3.Concat(p[0], p[1]), a[1]), no_sub_f.t(p[0], a[1])))
    all_acyc_f.rule("all_acyclic_f-empty", 0, "empty")(lambda a, p: z3.BoolVal(True))
    all_acyc_f.rule("all_acyclic_f-snoc", 0, "snoc")(lambda a, p: z3.And(all_acyc_f.t(p[0]), acyc.t(ch(p[1]))))
    all_acyc_f.rule("all_acyclic_f-prefix", 0, "concat", "lemma", raw=True)(lambda a, p: z3.Implies(all_acyc_f.t(z3.Concat(p[0], p[1])), all_acyc_f.t(p[0])))
    sf.update({"no_child_subtree_has_id_f": no_sub_f, "all_acyclic_ids_f": all_acyc_f})
    all_acyc.rule("all_acyclic-empty", 0, "empty")(lambda a, p: z3.BoolVal(True))
    all_acyc.rule("all_acyclic-snoc", 0, "snoc")(lambda a, p: z3.And(all_acyc.t(p[0]), acyc.t(p[1])))
    all_acyc.rule("all_acyclic-prefix", 0, "concat", "lemma", raw=True)(lambda a, p: z3.Implies(all_acyc.t(z3.Concat(p[0], p[1])), all_acyc.t(p[0])))
    sf.update({"acyclic_ids": acyc, "all_acyclic_ids": all_acyc})
    sf.update({"no_child_subtree_has_id": no_sub, "only_subtree_ids_changed": lambda a, b, n: VBool(only_sub(a.term, b.term, nv.ref(n))),
               "subtree_has_id": lambda n, k: VBool(sub_id(nv.ref(n), STR.coerce(k).term))})
    none_n = NM.opt.none().term
    is_child = z3.Function("is_child_of", REF.z3(), REF.z3(), z3.BoolSort())      # c is one of the nodes get_child_nodes / get_child_nodes_with_field of n yield

    def child_instances(formulas):
        """is_child_of(x, n) for every element x the executor took out of lkids(n) / lkidsf(n)"""
        out, seen, stack = [], set(), list(formulas)
        units = []
        for f in subterms(formulas):
            if f.decl().kind() == z3.Z3_OP_SEQ_UNIT and f.arg(0).sort() in (REF.z3(), CPOS.z3()):
                units.append(f.arg(0))
        ks = [f for f in seen_terms(formulas, ("lkids", "lkidsf"))]
        for k in ks:
            for u in units:
                if k.decl().name() == "lkids" and u.sort() == REF.z3():
                    out.append(z3.Implies(z3.Contains(k, z3.Unit(u)), is_child(u, k.arg(0))))
                if k.decl().name() == "lkidsf" and u.sort() == CPOS.z3():
                    out.append(z3.Implies(z3.Contains(k, z3.Unit(u)), is_child(ch(u), k.arg(0))))
        return out

    def seen_terms(formulas, names):
        out, seen, stack = [], set(), list(formulas)
        for f in subterms(formulas):
            if f.decl().name() in names:
                out.append(f)
        return out

    lib.extra_instantiators.append(child_instances)

    def only_sub_instances(formulas):
        out, seen, stack = [], set(), list(formulas)
        apps, keys, stores, kidfacts = [], {}, {}, []
        for f in subterms(formulas):
            if f.decl().name() == "only_subtree_ids_changed":
                apps.append(f)
            if f.decl().kind() in (z3.Z3_OP_STORE, z3.Z3_OP_SELECT) and f.arg(0).sort() == NM.z3():
                keys[f.arg(1).get_id()] = f.arg(1)
            if f.decl().kind() == z3.Z3_OP_STORE and f.sort() == NM.z3():
                stores[f.get_id()] = f
        done = set()

        def emit(x):
            if x.get_id() not in done:
                done.add(x.get_id())
                out.append(x)
        nodes = {ap.arg(2).get_id(): ap.arg(2) for ap in apps}
        mapsT = {}
        for ap in apps:
            for t in (ap.arg(0), ap.arg(1)):
                mapsT[t.get_id()] = t
        for n in nodes.values():
            for t in mapsT.values():
                emit(only_sub(t, t, n))                                                                        # O-refl
            for st in stores.values():
                for ap in apps:
                    if ap.arg(2).eq(n) and ap.arg(0).eq(st.arg(0)):
                        emit(z3.Implies(z3.And(ap, st.arg(1) == nv.f_id(n)), only_sub(st, ap.arg(1), n)))        # O-write-own-id
        for a in apps:
            for b in apps:
                if a.arg(1).eq(b.arg(0)) and not a.arg(2).eq(b.arg(2)):
                    c_, n_ = a.arg(2), b.arg(2)
                    emit(z3.Implies(z3.And(a, b, is_child(c_, n_)), only_sub(a.arg(0), b.arg(1), n_)))   # O-child-then-parent
        for ap in apps:
            for k in keys.values():
                emit(z3.Implies(ap, z3.Or(z3.Select(ap.arg(0), k) == z3.Select(ap.arg(1), k), sub_id(ap.arg(2), k))))  # O-elim
        return out

    lib.extra_instantiators.append(only_sub_instances)
    # all_cleared(P, s): every node of s has no recorded parent id; preserved by anything that only removes parent slots
    all_clr = lib.fn("all_parent_ids_cleared", [PM, SR], BOOL)
    none_p = PM.opt.none().term
    all_clr.rule("all_cleared-empty", 1, "empty")(lambda a, p: z3.BoolVal(True))
    all_clr.rule("all_cleared-snoc", 1, "snoc")(lambda a, p: z3.And(all_clr.t(a[0], p[0]), z3.Select(a[0], p[1]) == none_p))
    sf["all_parent_ids_cleared"] = all_clr

    def cleared_instances(formulas):
        out, seen, stack = [], set(), list(formulas)
        clr, shr = [], []
        for f in subterms(formulas):
            if f.decl().name() == "all_parent_ids_cleared":
                clr.append(f)
            if f.decl().name() == "shrinks_p":
                shr.append(f)
        for c in clr:
            for sh in shr:
                if sh.arg(0).eq(c.arg(0)):
                    out.append(z3.Implies(z3.And(sh, all_clr.t(sh.arg(1), c.arg(1))), c))       # cleared-mono
        return out

    lib.extra_instantiators.append(cleared_instances)
    SHRINK = ["shrinks_n(NODES, old(NODES))", "shrinks_p(PID, old(PID))", "shrinks_f(PF, old(PF))", "shrinks_i(PI, old(PI))"]
    REJ = f"(mget(old(NODES), self.id) == self and mget(old(PID), self) is not None and mget(old(NODES), mget(old(PID), self)) is not None)"
    for variant in (None, "callee"):
        A(Contract(f"{LM}:AwareASTNode.detach", variant_of=variant, params={"self": "Ref", "only_self": "bool"}, returns="bool", props=PB, globals=G,
                   ghost={"r": "Ref"},
                   modifies=["NODES", "PID", "PF", "PI", "XP"], trusted=variant is not None,
                   trusted_reason="proved below; at the recursive calls it is the induction hypothesis (on the height of the tree)" if variant else "",
                   ensures=[f"result == (not {REJ})",
                            "implies(not result, NODES == old(NODES) and PID == old(PID) and PF == old(PF) and PI == old(PI) and XP == old(XP))",
                            "implies(mget(old(NODES), self.id) != self, NODES == old(NODES) and PID == old(PID) and PF == old(PF) and PI == old(PI) and XP == old(XP))",
                            "implies(result and mget(old(NODES), self.id) == self, mget(NODES, self.id) is None)",
                            "only_subtree_ids_changed(NODES, old(NODES), self)",
                            "implies(result and mget(old(NODES), self.id) == self, all_parent_ids_cleared(PID, lkids(self)))",
                            # exact effect of the non-recursive form, pointwise for an arbitrary node r
                            "implies(only_self and result and mget(old(NODES), self.id) == self, NODES == mdel(old(NODES), self.id))",
                            "implies(only_self and result and mget(old(NODES), self.id) == self and is_in(lkids(self), r), "
                            "mget(PID, r) is None and mget(PF, r) is None and mget(PI, r) is None and mget(XP, r) is None)",
                            "implies(only_self and not is_in(lkids(self), r), "
                            "mget(PID, r) == mget(old(PID), r) and mget(PF, r) == mget(old(PF), r) and mget(PI, r) == mget(old(PI), r) and mget(XP, r) == mget(old(XP), r))"] + SHRINK,
                   requires=["implies(not only_self, acyclic_ids(self))"],
                   loops={1: Loop(inv=["shrinks_n(NODES, old(NODES))", "shrinks_p(PID, old(PID))", "shrinks_f(PF, old(PF))", "shrinks_i(PI, old(PI))",
                                       "mget(NODES, self.id) == self", "only_subtree_ids_changed(NODES, old(NODES), self)", "all_parent_ids_cleared(PID, done1)",
                                       "implies(not only_self, no_child_subtree_has_id(seq1, self.id) and all_acyclic_ids(seq1))", "seq1 == lkids(self)",
                                       "implies(only_self, NODES == old(NODES))",
                                       "implies(only_self and is_in(done1, r), mget(PID, r) is None and mget(PF, r) is None and mget(PI, r) is None and mget(XP, r) is None)",
                                       "implies(only_self and not is_in(done1, r), mget(PID, r) == mget(old(PID), r) and mget(PF, r) == mget(old(PF), r) "
                                       "and mget(PI, r) == mget(old(PI), r) and mget(XP, r) == mget(old(XP), r))"])} if variant is None else {},
                   note="a node that still has a registered parent is refused (False) and nothing changes; a detached node is left alone (True, nothing changes); an attached root is "
                        "unregistered; every effect is a removal: no registry entry and no parent slot is ever added or redirected (shrinks_*), and only entries of ids of the "
                        "node's own tree are touched. Precondition of the recursive form: no proper descendant carries the node's own id (ids hash the children's ids, so this is "
                        "acyclicity of the tree), recursively for every subtree (acyclic_ids); the recursive calls are checked against the same precondition"))
    reg.contracts[f"{LM}:AwareASTNode.detach#callee"].fn = f"{LM}:AwareASTNode.detach"
    orig_lookup = world.mro_lookup

    def lookup(cls, name):
        if name == "detach" and cls == "AwareASTNode" and getattr(world, "_in_detach_body", False):
            return f"{LM}:AwareASTNode.detach#callee"
        return orig_lookup(cls, name)

    world.mro_lookup = lookup

    def setup_detach(m):
        world._in_detach_body = True

    reg.contracts[f"{LM}:AwareASTNode.detach"].setup = setup_detach
    A(Contract(f"{LM}:AwareASTNode.detach_self", params={"self": "Ref"}, returns="bool", props=PB, globals=G, modifies=["NODES", "PID", "PF", "PI", "XP"], ghost={"r": "Ref"},
               ensures=[f"result == (not {REJ})", "implies(not result, NODES == old(NODES) and PID == old(PID) and PF == old(PF) and PI == old(PI) and XP == old(XP))",
                        "implies(result and mget(old(NODES), self.id) == self, NODES == mdel(old(NODES), self.id))",
                        "implies(result and mget(old(NODES), self.id) == self and is_in(lkids(self), r), "
                        "mget(PID, r) is None and mget(PF, r) is None and mget(PI, r) is None and mget(XP, r) is None)",
                        "implies(not is_in(lkids(self), r), "
                        "mget(PID, r) == mget(old(PID), r) and mget(PF, r) == mget(old(PF), r) and mget(PI, r) == mget(old(PI), r) and mget(XP, r) == mget(old(XP), r))"] + SHRINK,
               setup=setup_detach,
               note="the non-recursive detach: exactly the node's registry entry goes and exactly its children's four slots are reset (pointwise for an arbitrary node r)"))
    # ---- attach -------------------------------------------------------------------------------------------------------------------
    from pyvc.values import rec_sort
    PAIR = rec_sort("NodePair", [("child", REF), ("parent", REF)], tuple_like=True)
    ext_n = z3.Function("extends_n", NM.z3(), NM.z3(), z3.BoolSort())          # forall k. N[k] is None or N'[k] == N[k]   (only additions)
    sf["extends_n"] = lambda a, b: VBool(ext_n(a.term, b.term))

    def extend_instances(formulas):
        out = []
        fresh, vcst = new_subterms(formulas, "extend")
        apps, keys, stores, allmaps = vcst.setdefault("apps", []), vcst.setdefault("keys", {}), vcst.setdefault("stores", {}), vcst.setdefault("allmaps", {})
        seen_pairs = vcst.setdefault("pairs", set())

        def first(*ids):
            if ids in seen_pairs:
                return False
            seen_pairs.add(ids)
            return True
        for f in fresh:
            if f.decl().name() == "extends_n":
                apps.append(f)
            if f.sort() == NM.z3() and z3.is_const(f):
                allmaps[f.get_id()] = f
            if f.decl().kind() in (z3.Z3_OP_STORE, z3.Z3_OP_SELECT) and f.arg(0).sort() == NM.z3():
                keys[f.arg(1).get_id()] = f.arg(1)
            if f.decl().kind() == z3.Z3_OP_STORE and f.sort() == NM.z3():
                stores[f.get_id()] = f
        done = set()

        def emit(x):
            if x.get_id() not in done:
                done.add(x.get_id())
                out.append(x)
        terms = {}
        for ap in apps:
            for t in (ap.arg(0), ap.arg(1)):
                terms[t.get_id()] = t
        for t in terms.values():
            emit(ext_n(t, t))                                                                                        # E-refl
        for st in stores.values():
            for ap in apps:
                if ap.arg(0).eq(st.arg(0)):                                                                          # E-add: storing at a key that was free in the base
                    emit(z3.Implies(z3.And(ap, z3.Select(ap.arg(1), st.arg(1)) == none_n, z3.Select(st.arg(0), st.arg(1)) == none_n), ext_n(st, ap.arg(1))))
        for st in stores.values():
            for ap in apps:
                lo = ap.arg(1)
                if ap.arg(0).eq(st.arg(0)):
                    # E-restore: the base extends `orig minus k`; putting orig's own entry back under k extends orig
                    for o in allmaps.values():
                        if not o.eq(lo) and not o.eq(st) and first("restore", st.get_id(), ap.get_id(), o.get_id()):
                            emit(z3.Implies(z3.And(ap, lo == z3.Store(o, st.arg(1), none_n), st.arg(2) == z3.Select(o, st.arg(1))), ext_n(st, o)))
        info = [(a, a.get_id(), a.arg(0), a.arg(1)) for a in apps]
        for a, ia, a0, a1 in info:
            for b, ib, b0, b1 in info:
                if first("trans", ia, ib) and a1.eq(b0):
                    emit(z3.Implies(z3.And(a, b), ext_n(a0, b1)))                                                    # E-trans
        for ap, iap, hi, lo in info:
            for kid, k in keys.items():
                if first("elim", iap, kid):
                    emit(z3.Implies(ap, z3.Or(z3.Select(lo, k) == none_n, z3.Select(hi, k) == z3.Select(lo, k))))     # E-elim
        return out

    lib.extra_instantiators.append(extend_instances)
    OWN_TAKEN = "mget(old(NODES), self.id) is not None"
    for variant in (None, "callee"):
        A(Contract(f"{LM}:AwareASTNode._attach_inner", variant_of=variant, params={"self": "Ref", "operation": "str"}, returns="Opt[NodePair]", props=PB, globals=G,
                   modifies=["NODES", "PID", "PF", "PI", "XP"], trusted=variant is not None,
                   trusted_reason="proved below; at the recursive calls it is the induction hypothesis (on the height of the tree)" if variant else "",
                   requires=["acyclic_ids(self)"], may_raise=["ASTNodeRegistryCollisionError"],
                   exc_ensures=[f"implies({OWN_TAKEN}, NODES == old(NODES) and PID == old(PID) and PF == old(PF) and PI == old(PI) and XP == old(XP))"],
                   ensures=["mget(old(NODES), self.id) is None", "extends_n(NODES, old(NODES))", "only_subtree_ids_changed(NODES, old(NODES), self)", "XP == old(XP)",
                            "implies(result is None, mget(NODES, self.id) == self)", "implies(result is not None, mget(NODES, self.id) is None)"],
                   loops={1: Loop(inv=["extends_n(NODES, old(NODES))", "only_subtree_ids_changed(NODES, old(NODES), self)", "XP == old(XP)", "mget(NODES, self.id) is None",
                                       "no_child_subtree_has_id_f(seq1, self.id) and all_acyclic_ids_f(seq1)", "seq1 == lkidsf(self)"])} if variant is None else {},
                   note="a node whose own id is taken is rejected at once with nothing changed; otherwise registry entries are only ever added (never redirected or removed), only under ids "
                        "of the node's own tree, the xpath slots are untouched, and the node itself is registered exactly when no parent collision is reported"))
    reg.contracts[f"{LM}:AwareASTNode._attach_inner#callee"].fn = f"{LM}:AwareASTNode._attach_inner"
    orig_lookup2 = world.mro_lookup

    def lookup2(cls, name):
        if name == "_attach_inner" and cls == "AwareASTNode" and getattr(world, "_in_attach_body", False):
            return f"{LM}:AwareASTNode._attach_inner#callee"
        return orig_lookup2(cls, name)

    world.mro_lookup = lookup2

    def setup_attach(m):
        world._in_attach_body = True

    reg.contracts[f"{LM}:AwareASTNode._attach_inner"].setup = setup_attach
    world.exc_parents["ASTNodeParentCollisionError"] = "Exception"
    A(Contract(f"{LM}:AwareASTNode._attach", params={"self": "Ref", "operation": "str"}, props=PB, globals=G, modifies=["NODES", "PID", "PF", "PI", "XP"],
               requires=["acyclic_ids(self)"], may_raise=["ASTNodeRegistryCollisionError", "ASTNodeParentCollisionError"],
               exc_ensures=[f"implies({OWN_TAKEN}, NODES == old(NODES) and PID == old(PID) and PF == old(PF) and PI == old(PI) and XP == old(XP))"],
               ensures=["mget(old(NODES), self.id) is None", "mget(NODES, self.id) == self", "extends_n(NODES, old(NODES))", "only_subtree_ids_changed(NODES, old(NODES), self)", "XP == old(XP)"],
               setup=setup_attach,
               note="returns only when the node ended up registered; a reported parent collision becomes ASTNodeParentCollisionError"))
    A(Contract(f"{LM}:AwareASTNode.attach", params={"self": "Ref"}, props=PB, globals=G, modifies=["NODES", "PID", "PF", "PI", "XP"],
               requires=["acyclic_ids(self)"], may_raise=["ASTNodeRegistryCollisionError", "ASTNodeParentCollisionError"],
               exc_ensures=[f"implies({OWN_TAKEN}, NODES == old(NODES) and PID == old(PID) and PF == old(PF) and PI == old(PI) and XP == old(XP))"],
               ensures=["mget(NODES, self.id) == self", "implies(mget(old(NODES), self.id) == self, NODES == old(NODES) and PID == old(PID) and PF == old(PF) and PI == old(PI) and XP == old(XP))",
                        "extends_n(NODES, old(NODES))", "XP == old(XP)"],
               setup=setup_attach,
               note="an attached node is left alone (nothing changes); otherwise on return the node is registered and the registry has only grown; "
                    "a detached node whose id is taken by another object is rejected with nothing changed"))
    # ---- replace(): forbidden keys are rejected before any effect; a rejected construction is rolled back ---------------------------
    KW = __import__("pyvc.values", fromlist=["usort"]).usort("Kwargs")
    keys_allowed = z3.Function("change_keys_allowed", KW.z3(), REF.z3(), z3.BoolSort())
    orig_id = z3.Function("node_original_id", REF.z3(), OSTR.z3())
    sf["change_keys_allowed"] = lambda kw_, n: VBool(keys_allowed(kw_.term, nv.ref(n)))
    points_back = lib.fn("children_point_back", [PM, FM, IM, REF, SC], BOOL)
    idx = lambda c: CPOS.get(CPOS.wrap(c).term, "index").term
    fld = lambda c: CPOS.get(CPOS.wrap(c).term, "field").term
    OI = IM.opt
    points_back.rule("points_back-empty", 4, "empty")(lambda a, p: z3.BoolVal(True))
    points_back.rule("points_back-snoc", 4, "snoc")(lambda a, p: z3.And(points_back.t(a[0], a[1], a[2], a[3], p[0]),
                                                                      z3.Select(a[0], ch(p[1])) == PM.opt.some(STR.wrap(nv.f_id(a[3]))).term,
                                                                      z3.Select(a[1], ch(p[1])) == FM.opt.some(FLD.wrap(fld(p[1]))).term,
                                                                      z3.Select(a[2], ch(p[1])) == idx(p[1])))
    points_back.rule("points_back-prefix", 4, "concat", "lemma", raw=True)(
        lambda a, p: z3.Implies(points_back.t(a[0], a[1], a[2], a[3], z3.Concat(p[0], p[1])), points_back.t(a[0], a[1], a[2], a[3], p[0])))
    has_child = lib.fn("has_child_node", [SC, REF], BOOL)
    has_child.rule("has_child-empty", 0, "empty")(lambda a, p: z3.BoolVal(False))
    has_child.rule("has_child-snoc", 0, "snoc")(lambda a, p: z3.Or(has_child.t(p[0], a[1]), ch(p[1]) == a[1]))
    sf.update({"children_point_back": points_back, "has_child_node": has_child})

    def attr_r(m, obj, name):
        if isinstance(obj, VU) and obj.sort == KW and name == "keys":
            return VBound(obj, "keys")
        if isinstance(obj, VPy) and isinstance(obj.obj, tuple) and obj.obj[0] == "nameset" and name == "issubset":
            return VBound(obj, "issubset")
        if isinstance(obj, VU) and obj.sort == REF and name in ("original_id", "id_collision_with") and not m.spec:
            return VOpt(orig_id(obj.term), OSTR) if name == "original_id" else VOpt(z3.Const(fresh_name("id_collision_with"), OSTR.z3()), OSTR)
        return None

    def call_r(m, func, a, kw, nd):
        if m.contract.qualname != "AwareASTNode.replace":
            return NotImplemented
        if isinstance(func, VPy) and func.obj == ("builtin", "set") and len(a) == 1:
            if isinstance(a[0], VPy) and isinstance(a[0].obj, tuple) and a[0].obj[0] == "genexp":
                return VPy(("nameset", "allowed"))
            if isinstance(a[0], VPy) and isinstance(a[0].obj, tuple) and a[0].obj[0] == "kwkeys":
                return VPy(("nameset", "changes", a[0].obj[1]))
        if isinstance(func, VBound) and isinstance(func.recv, VU) and func.recv.sort == KW and func.name == "keys":
            return VPy(("kwkeys", func.recv))
        if isinstance(func, VBound) and isinstance(func.recv, VPy) and func.name == "issubset":
            chg, allowed = func.recv.obj, a[0].obj
            if chg[:2] == ("nameset", "changes") and allowed == ("nameset", "allowed"):
                return VBool(keys_allowed(chg[2].term, m.env["self"].term))
            raise EngineError("issubset on other sets")
        if isinstance(func, VPy) and func.obj == ("builtin", "list") and len(a) == 1 and isinstance(a[0], VPy) and isinstance(a[0].obj, tuple) and a[0].obj[0] == "nameset":
            return VPy(("names",))
        if isinstance(func, VCls) and func.name == "ASTNodeReplaceError":
            return VExc("ASTNodeReplaceError")
        if isinstance(func, VPy) and func.obj == ("builtin", "replace"):
            # dataclasses.replace -> the constructor: may reject (assumed here: a rejected construction leaves the heap as it found it, which is C19 for
            # constructions -- open finding KF-C19-ctor-partial is exactly where that fails); on success anything reachable may have changed
            if m.ctx.branch(z3.Bool(fresh_name("construction_rejected"))):
                # what a rejected construction may have done (cf. KF-C19-ctor-partial): re-parented any of the nodes handed to it (the parent id / field / index /
                # xpath slots of any node other than the receiver are unknown afterwards) and registered previously detached descendants (the registry has only
                # grown); the rejected node itself is registered last, so the receiver's id is still free
                # (a construction with create_detached=True attaches nothing: no effect at all)
                me = m.env["self"]
                quiet = m.truth(kw["create_detached"]) if "create_detached" in kw else z3.BoolVal(False)
                for gname in ("PID", "PF", "PI", "XP"):
                    c_ = cell(m, gname)
                    before = c_.value
                    c_.value = before.sort.fresh(gname + "_after_rejection")
                    m.ctx.assume(z3.Select(c_.value.term, me.term) == z3.Select(before.term, me.term))
                    m.ctx.assume(z3.Implies(quiet, c_.value.term == before.term))
                cn = cell(m, "NODES")
                n_before = cn.value
                cn.value = n_before.sort.fresh("NODES_after_rejection")
                m.ctx.assume(z3.And(ext_n(cn.value.term, n_before.term), z3.Select(cn.value.term, nv.f_id(me.term)) == z3.Select(n_before.term, nv.f_id(me.term))))
                m.ctx.assume(z3.Implies(quiet, cn.value.term == n_before.term))
                raise RaiseSig(VExc("Exception"))
            for gname in ("NODES", "PID", "PF", "PI", "XP"):
                c_ = cell(m, gname)
                c_.value = c_.value.sort.fresh(gname + "_after_ctor")
            return REF.fresh("replacement")
        if isinstance(func, VPy) and func.obj == ("setattr",) and isinstance(a[0], VU) and a[0].sort == REF:
            nm = a[1].term.as_string() if isinstance(a[1], VStr) else a[1].obj
            if nm in ("original_id", "id_collision_with"):
                return NONE          # bookkeeping fields of the *new* node: not part of the modelled heap
        return NotImplemented

    def sub_hook(m, op, a, b):
        return None

    import ast as _ast

    def binop_sets(m, op, a, b):
        if isinstance(a, VPy) and isinstance(b, VPy) and isinstance(a.obj, tuple) and isinstance(b.obj, tuple) and a.obj[0] == "nameset" and b.obj[0] == "nameset":
            return VPy(("nameset", "difference"))
        return None

    world.attr_hooks.insert(0, attr_r)
    world.call_hooks.insert(0, call_r)
    world.binop_hooks_sub = [binop_sets]
    world.exc_parents["ASTNodeReplaceError"] = "Exception"
    world.name_hooks.append(lambda m, n: VCls(n) if n in ("ASTNodeReplaceError",) else (VPy(("builtin", "fields")) if n == "fields" else None))
    A(Contract(f"{LM}:AwareASTNode.parent_field", params={"self": "Ref"}, returns="Opt[Fld]", props=P18, globals=G, ensures=["result == mget(PF, self)"] + UNCH, note="property"))
    A(Contract(f"{LM}:AwareASTNode.parent_index", params={"self": "Ref"}, returns="Opt[int]", props=P18, globals=G, ensures=["result == mget(PI, self)"] + UNCH, note="property"))
    A(Contract(f"{LM}:AwareASTNode._replace_child", params={"self": "Ref", "old": "Ref", "field": "Fld", "index": "Opt[int]", "new": "Opt[Ref]"}, props=PB, globals=G,
               modifies=["NODES", "PID", "PF", "PI", "XP"], trusted=True,
               trusted_reason="splices the replacement into the parent's field value (setattr on a mutable dataclass, index shifting, content-id propagation): not modelled, bounded only (rt.c18)"))
    SAME_AT_R = "mget(PID, r) == mget(old(PID), r) and mget(PF, r) == mget(old(PF), r) and mget(PI, r) == mget(old(PI), r)"
    ATTACHED = "(mget(NODES, self.id) == self)"
    A(Contract(f"{LM}:AwareASTNode.replace", params={"self": "Ref", "changes": "Kwargs"}, returns="Ref", props=P19, globals=G, ghost={"r": "Ref"},
               modifies=["NODES", "PID", "PF", "PI", "XP"],
               locals={"was_attached": "bool", "cur_parent": "Opt[Ref]", "cur_parent_field": "Opt[Fld]", "cur_parent_index": "Opt[int]"},
               requires=[f"implies({ATTACHED}, children_point_back(PID, PF, PI, self, lkidsf(self)))",                     # C18 invariant at the receiver
                         "implies(mget(PID, self) is not None and mget(NODES, mget(PID, self)) is not None, mget(NODES, mget(PID, self)).id == mget(PID, self) and mget(PF, self) is not None)",
                         "not is_in(lkids(self), self)", "is_in(lkids(self), r) == has_child_node(lkidsf(self), r)"],
               raises=[("ASTNodeReplaceError", "not change_keys_allowed(changes, self)")], may_raise=["Exception"],
               exc_ensures=["implies(not change_keys_allowed(changes, self), NODES == old(NODES) and PID == old(PID) and PF == old(PF) and PI == old(PI) and XP == old(XP))",
                            "mget(NODES, self.id) == mget(old(NODES), self.id)", "extends_n(NODES, old(NODES))",
                            "implies(r == self or is_in(lkids(self), r), " + SAME_AT_R + ")"],
               loops={1: Loop(inv=["mget(NODES, self.id) == mget(old(NODES), self.id)", "extends_n(NODES, old(NODES))", "seq1 == lkidsf(self)",
                                   "children_point_back(old(PID), old(PF), old(PI), self, seq1)", "change_keys_allowed(changes, self)",
                                   "implies(has_child_node(done1, r), " + SAME_AT_R + ")",
                                   "implies(r == self and cur_parent is None, " + SAME_AT_R + ")",
                                   "implies(cur_parent is not None, cur_parent == mget(old(NODES), mget(old(PID), self)) and cur_parent_field == mget(old(PF), self) "
                                   "and cur_parent_index == mget(old(PI), self) and mget(old(PID), self) is not None)"])},
               note="changes naming a forbidden or unknown field are rejected (ASTNodeReplaceError) before anything is touched; when the construction of the replacement is rejected -- "
                    "after possibly having re-parented any node handed to it and registered detached descendants, which is how the legacy constructor fails (KF-C19-ctor-partial) -- "
                    "the receiver is registered again under its id, the registry has at most grown, and the receiver and every one of its children have the parent id / field / index "
                    "they had before the call (stated for an arbitrary node r; the xpath slot is not part of the statement). Relative to the C18 invariant at the receiver (its children "
                    "point back to it, its parent entry is registered under the recorded id) and to the rejected construction not touching the receiver's own slots"))
    # ---- lemmas: the quantified meaning of shrinks_* and its four consequences ---------------------------------------------------
    lem = []
    a_d, b_d, y_d = z3.Const("a_hd", SC.z3()), z3.Const("b_hd", SC.z3()), z3.Const("y_hd", CPOS.z3())

    def hd_base(bank):
        return [], z3.Implies(has_dup.t(a_d), has_dup.t(z3.Concat(a_d, z3.Empty(SC.z3()))))

    def hd_step(bank):
        ih = z3.Implies(has_dup.t(a_d), has_dup.t(z3.Concat(a_d, b_d)))
        whole = z3.Concat(a_d, mk_snoc(b_d, y_d))
        bank.add(whole, ("snoc", z3.Concat(a_d, b_d), y_d))
        return [ih], z3.Implies(has_dup.t(a_d), has_dup.t(whole))
    lem.append(Lemma("has_dup-prefix", [("base", hd_base), ("step", hd_step)], PB))
    kq2 = z3.Const("k_os", z3.StringSort())
    cq, nq = z3.Const("c_os", REF.z3()), z3.Const("n_os", REF.z3())
    DO = lambda hi, lo, n: z3.ForAll([kq2], z3.Or(z3.Select(hi, kq2) == z3.Select(lo, kq2), sub_id(n, kq2)))
    m0, m1, m2 = z3.Const("m0_os", NM.z3()), z3.Const("m1_os", NM.z3()), z3.Const("m2_os", NM.z3())
    k0s = z3.Const("k0_os", z3.StringSort())
    v0s = z3.Const("v0_os", NM.opt.z3())

    def os_all(bank):
        ax1 = sub_id(nq, nv.f_id(nq))                                                                      # closure: the node's own id
        ax2 = z3.ForAll([kq2], z3.Implies(z3.And(is_child(cq, nq), sub_id(cq, kq2)), sub_id(nq, kq2)))   # closure: children's subtrees
        goal = z3.And(DO(m0, m0, nq),
                      z3.Implies(z3.And(DO(m1, m0, nq), k0s == nv.f_id(nq)), DO(z3.Store(m1, k0s, v0s), m0, nq)),
                      z3.Implies(z3.And(DO(m2, m1, cq), DO(m1, m0, nq), is_child(cq, nq)), DO(m2, m0, nq)),
                      z3.Implies(DO(m1, m0, nq), z3.Or(z3.Select(m1, k0s) == z3.Select(m0, k0s), sub_id(nq, k0s))))
        return [ax1, ax2], goal
    lem.append(Lemma("only_subtree_ids_changed-rules", [("all", os_all)], PB))
    a_n, b_n, y_n = z3.Const("a_ns", SR.z3()), z3.Const("b_ns", SR.z3()), z3.Const("y_ns", REF.z3())
    k_n = z3.Const("k_ns", z3.StringSort())

    def ns_base(bank):
        return [], z3.Implies(no_sub.t(z3.Concat(a_n, z3.Empty(SR.z3())), k_n), no_sub.t(a_n, k_n))

    def ns_step(bank):
        ih = z3.Implies(no_sub.t(z3.Concat(a_n, b_n), k_n), no_sub.t(a_n, k_n))
        whole = z3.Concat(a_n, mk_snoc(b_n, y_n))
        bank.add(whole, ("snoc", z3.Concat(a_n, b_n), y_n))
        return [ih], z3.Implies(no_sub.t(whole, k_n), no_sub.t(a_n, k_n))
    lem.append(Lemma("no_child_sub-prefix", [("base", ns_base), ("step", ns_step)], PB))

    def aa_base(bank):
        return [], z3.Implies(all_acyc.t(z3.Concat(a_n, z3.Empty(SR.z3()))), all_acyc.t(a_n))

    def aa_step(bank):
        ih = z3.Implies(all_acyc.t(z3.Concat(a_n, b_n)), all_acyc.t(a_n))
        whole = z3.Concat(a_n, mk_snoc(b_n, y_n))
        bank.add(whole, ("snoc", z3.Concat(a_n, b_n), y_n))
        return [ih], z3.Implies(all_acyc.t(whole), all_acyc.t(a_n))
    lem.append(Lemma("all_acyclic-prefix", [("base", aa_base), ("step", aa_step)], PB))
    p0, p1 = z3.Const("p0_cm", PM.z3()), z3.Const("p1_cm", PM.z3())
    rq = z3.Const("r_cm", REF.z3())
    Dp = z3.ForAll([rq], z3.Or(z3.Select(p1, rq) == none_p, z3.Select(p1, rq) == z3.Select(p0, rq)))

    def cm_base(bank):
        return [Dp], z3.Implies(all_clr.t(p0, z3.Empty(SR.z3())), all_clr.t(p1, z3.Empty(SR.z3())))

    def cm_step(bank):
        ih = z3.Implies(all_clr.t(p0, a_n), all_clr.t(p1, a_n))
        whole = mk_snoc(a_n, y_n)
        bank.add(whole, ("snoc", a_n, y_n))
        return [Dp, ih], z3.Implies(all_clr.t(p0, whole), all_clr.t(p1, whole))
    lem.append(Lemma("all_cleared-mono", [("base", cm_base), ("step", cm_step)], PB))
    e0, e1, e2 = z3.Const("e0_ex", NM.z3()), z3.Const("e1_ex", NM.z3()), z3.Const("e2_ex", NM.z3())
    ke, ve = z3.Const("k_ex", z3.StringSort()), z3.Const("v_ex", NM.opt.z3())
    kqe = z3.Const("kq_ex", z3.StringSort())
    DE = lambda hi, lo: z3.ForAll([kqe], z3.Or(z3.Select(lo, kqe) == none_n, z3.Select(hi, kqe) == z3.Select(lo, kqe)))

    def ex_all(bank):
        goal = z3.And(DE(e0, e0),
                      z3.Implies(z3.And(DE(e1, e0), z3.Select(e0, ke) == none_n, z3.Select(e1, ke) == none_n), DE(z3.Store(e1, ke, ve), e0)),
                      z3.Implies(z3.And(DE(e2, e1), DE(e1, e0)), DE(e2, e0)),
                      z3.Implies(DE(e1, e0), z3.Or(z3.Select(e0, ke) == none_n, z3.Select(e1, ke) == z3.Select(e0, ke))),
                      z3.Implies(z3.And(DE(e1, z3.Store(e0, ke, none_n)), ve == z3.Select(e0, ke)), DE(z3.Store(e1, ke, ve), e0)))
        return [], goal
    lem.append(Lemma("extends_n-rules", [("all", ex_all)], PB))
    af, bf, yf = z3.Const("a_fs", SC.z3()), z3.Const("b_fs", SC.z3()), z3.Const("y_fs", CPOS.z3())
    for fn2, nm2, extra in ((no_sub_f, "no_child_sub_f-prefix", [k_n]), (all_acyc_f, "all_acyclic_f-prefix", [])):
        def fb(bank, fn2=fn2, extra=extra):
            return [], z3.Implies(fn2.t(z3.Concat(af, z3.Empty(SC.z3())), *extra), fn2.t(af, *extra))

        def fs(bank, fn2=fn2, extra=extra):
            ih = z3.Implies(fn2.t(z3.Concat(af, bf), *extra), fn2.t(af, *extra))
            whole = z3.Concat(af, mk_snoc(bf, yf))
            bank.add(whole, ("snoc", z3.Concat(af, bf), yf))
            return [ih], z3.Implies(fn2.t(whole, *extra), fn2.t(af, *extra))
        lem.append(Lemma(nm2, [("base", fb), ("step", fs)], PB))
    for nm, (f, ms) in SHR.items():
        kq = z3.Const("k_" + nm, ms.key.z3())
        none = ms.opt.none().term
        D = lambda hi, lo, kq=kq, none=none: z3.ForAll([kq], z3.Or(z3.Select(hi, kq) == none, z3.Select(hi, kq) == z3.Select(lo, kq)))
        a_, b_, c_ = z3.Const("a_" + nm, ms.z3()), z3.Const("b_" + nm, ms.z3()), z3.Const("c_" + nm, ms.z3())
        k0 = z3.Const("k0_" + nm, ms.key.z3())

        def all_(bank, D=D, a_=a_, b_=b_, c_=c_, k0=k0, none=none):
            goal = z3.And(D(a_, a_), D(z3.Store(a_, k0, none), a_),
                          z3.Implies(z3.And(D(a_, b_), D(b_, c_)), D(a_, c_)),
                          z3.Implies(D(a_, b_), D(z3.Store(a_, k0, none), b_)),
                          z3.Implies(D(a_, b_), z3.Or(z3.Select(a_, k0) == none, z3.Select(a_, k0) == z3.Select(b_, k0))))
            return [], goal
        lem.append(Lemma(f"{nm}-rules", [("all", all_)], PB))
    world.trusted_notes.append('legacy heap model: the registry and the four per-node slots are five ghost maps; node.id is a function of the node (id-rewriting operations are outside this area)')
    world.trusted_notes.append('get_child_nodes and get_child_nodes_with_field enumerate the same child nodes (lkids / lkidsf, is_child_of)')
    world.trusted_notes.append("subtree_has_id is any predicate closed under 'the node's own id' and 'the ids of its children's subtrees' (closure axioms used in the only_subtree_ids_changed lemma); acyclic_ids is stated with it")
    world.trusted_notes.append("shrinks_* / extends_n / only_subtree_ids_changed / all_parent_ids_cleared enter function VCs only through consequences proved as quantified lemmas (z3) and instantiated at the VC's key terms")
    pbP, pbF, pbI = z3.Const("P_pb", PM.z3()), z3.Const("F_pb", FM.z3()), z3.Const("I_pb", IM.z3())
    pbn, pba, pbb, pby = z3.Const("n_pb", REF.z3()), z3.Const("a_pb", SC.z3()), z3.Const("b_pb", SC.z3()), z3.Const("y_pb", CPOS.z3())
    pb = lambda q: points_back.t(pbP, pbF, pbI, pbn, q)

    def pb_step(bank):
        ih = z3.Implies(pb(z3.Concat(pba, pbb)), pb(pba))
        whole = z3.Concat(pba, mk_snoc(pbb, pby))
        bank.add(whole, ("snoc", z3.Concat(pba, pbb), pby))
        return [ih], z3.Implies(pb(whole), pb(pba))
    lem.append(Lemma("points_back-prefix", [("base", lambda bank: ([], z3.Implies(pb(z3.Concat(pba, z3.Empty(SC.z3()))), pb(pba)))), ("step", pb_step)], PB))
    return world, lib, reg, lem
