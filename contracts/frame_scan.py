"""C10: frame obligations for every function of the v2 modules.

The generator enumerates every store site of every function (attribute / subscript assignment and
deletion, setattr / delattr / object.__setattr__, __dict__ / vars access, in-place container
methods) and emits one obligation per site: *the target is not a pre-existing node*.  A site is
discharged syntactically when its target is
  local      a container created in the same function (literal, constructor, comprehension) or a
             parameter / local that is not node-typed (dict payloads, lark trees, closures)
  global     a module-level registry or cache (registry membership is the one permitted effect)
  class      a class object (codegen installs accessors; serialization option slots)
  fresh      the object under construction (`self` in __init__/__new__/__post_init__ of that class) or
             an object returned by a constructor call in the same function (fresh by the callee's
             contract, e.g. from_dict)
  non-node   `self` of a class that is not a node class (Tree, ASTXpath, matchers, interpreters)
Anything else is an undischarged obligation.  Functions without store sites get the (counted)
obligation "no-store-site" so that an added write shows up as a new, failing obligation."""
from __future__ import annotations

import ast
import time
from typing import Any

from pyvc import extract

MODULES = ["pyoak.node", "pyoak.visitor", "pyoak.tree", "pyoak.match.xpath", "pyoak.match.pattern", "pyoak.serialize",
           "pyoak.codegen", "pyoak.types"]
MUTATORS = {"append", "appendleft", "pop", "popleft", "extend", "extendleft", "reverse", "clear", "insert", "remove", "sort",
            "update", "add", "discard", "setdefault", "popitem", "__setitem__", "__delitem__", "__setattr__", "__delattr__"}
NODE_CLASS_ROOTS = {"ASTNode"}
CONSTRUCTORS = {"list", "dict", "set", "deque", "tuple", "defaultdict", "OrderedDict", "Deque"}


def node_classes(mods: dict[str, extract.ModuleSrc]) -> dict[str, ast.ClassDef]:
    classes: dict[str, ast.ClassDef] = {}
    for m in mods.values():
        for n in ast.walk(m.tree):
            if isinstance(n, ast.ClassDef):
                classes[n.name] = n
    out: dict[str, ast.ClassDef] = {}
    changed = True
    while changed:
        changed = False
        for name, c in classes.items():
            if name in out:
                continue
            bases = [b.id if isinstance(b, ast.Name) else getattr(b, "attr", "") for b in c.bases]
            if name in NODE_CLASS_ROOTS or any(b in out or b in NODE_CLASS_ROOTS for b in bases):
                out[name] = c
                changed = True
    return out


def _root(e: ast.AST) -> ast.AST:
    while isinstance(e, (ast.Attribute, ast.Subscript)):
        e = e.value
    if isinstance(e, ast.Call) and isinstance(e.func, ast.Attribute) and e.func.attr == "get":
        return _root(e.func.value)  # out.get("origin", {})["source"] = ...
    return e


class FnScan:
    def __init__(self, mod: extract.ModuleSrc, qual: str, fn: ast.FunctionDef, cls: str | None, nodecls: set[str], module_globals: set[str]):
        self.mod, self.qual, self.fn, self.cls = mod, qual, fn, cls
        self.nodecls = nodecls
        self.module_globals = module_globals
        self.params = [a.arg for a in fn.args.posonlyargs + fn.args.args + fn.args.kwonlyargs]
        self.ann = {a.arg: (ast.unparse(a.annotation) if a.annotation else "") for a in fn.args.posonlyargs + fn.args.args + fn.args.kwonlyargs}
        self.local_kind: dict[str, str] = {}
        self._collect_locals()

    def _collect_locals(self) -> None:
        for n in ast.walk(self.fn):
            if isinstance(n, (ast.Assign, ast.AnnAssign)):
                targets = n.targets if isinstance(n, ast.Assign) else [n.target]
                val = n.value
                for t in targets:
                    if isinstance(t, ast.Name) and val is not None:
                        self.local_kind.setdefault(t.id, self._value_kind(val))

    def _value_kind(self, v: ast.AST) -> str:
        if isinstance(v, (ast.List, ast.Dict, ast.Set, ast.ListComp, ast.DictComp, ast.SetComp, ast.Tuple, ast.Constant, ast.JoinedStr)):
            return "local"
        if isinstance(v, ast.Call):
            f = v.func
            name = f.id if isinstance(f, ast.Name) else (f.attr if isinstance(f, ast.Attribute) else "")
            if name in CONSTRUCTORS:
                return "local"
            if name in ("_deserialize", "from_dict", "replace", "__new__") or (name[:1].isupper() and name not in ("NODE_REGISTRY",)):
                return "fresh"
            if name in ("__post_serialize__", "to_dict", "_serialize", "as_dict"):
                return "local"  # dict payloads
        return "unknown"

    def is_node_typed(self, name: str) -> bool:
        if name in ("self",) and self.cls in self.nodecls:
            return True
        a = self.ann.get(name, "")
        if a.startswith(("dict[", "Dict[", "Mapping[", "MutableMapping[", "list[", "List[", "set[", "Set[", "deque[", "Deque[")):
            return False  # a container (possibly of nodes) is not a node; storing into it modifies no node field
        if any(k in a for k in ("ASTNode", "ASTNodeType", "_AT")) and "type[" not in a and "Type[" not in a:
            return True
        if name in self.params and a:
            return False  # annotated with a non-node type (rich Tree, dict payload, lark tree, ...)
        if name in ("node", "child", "new_child", "root", "parent", "ancestor", "n", "c", "o") and name not in self.local_kind:
            return name in self.params or True
        return False

    def classify(self, target_root: ast.AST, site_src: str) -> tuple[str, str]:
        """-> (status, reason)"""
        fname = self.fn.name
        if isinstance(target_root, ast.Name):
            n = target_root.id
            if n == "self":
                if self.cls and self.cls not in self.nodecls:
                    return "ok", "non-node: self of class " + self.cls
                if fname in ("__init__", "__new__", "__post_init__"):
                    return "ok", "fresh: the object under construction"
                return "fail", "self is a pre-existing node"
            if n == "cls" or n in ("clz",) or (n[:1].isupper() and n not in ("NODE_REGISTRY",) and n in self.all_class_names):
                return "ok", "class object"
            if n in self.module_globals and n not in self.local_kind and n not in self.params:
                return "ok", "global: module-level registry / cache"
            k = self.local_kind.get(n)
            if k == "local":
                return "ok", "local container created in this function"
            if k == "fresh":
                return "ok", "fresh: object returned by a constructor call in this function"
            if n in self.params and not self.is_node_typed(n):
                return "ok", f"parameter {n} is not node-typed ({self.ann.get(n, '') or 'unannotated'})"
            if k == "unknown" and not self.is_node_typed(n):
                return "ok", f"local {n} is not node-typed"
            return "fail", f"{n} may be a pre-existing node"
        if isinstance(target_root, ast.Call):
            f = target_root.func
            name = f.id if isinstance(f, ast.Name) else getattr(f, "attr", "")
            if name in CONSTRUCTORS or name in ("_get_serialization_options",):
                return "ok", "fresh container"
        return "fail", "target expression not understood: " + ast.dump(target_root)[:60]

    all_class_names: set[str] = set()

    def sites(self) -> list[tuple[str, ast.AST, str]]:
        out: list[tuple[str, ast.AST, str]] = []
        own = self.fn

        def visit(n: ast.AST) -> None:
            for c in ast.iter_child_nodes(n):
                if isinstance(c, (ast.FunctionDef, ast.AsyncFunctionDef, ast.ClassDef)) and c is not own:
                    continue
                if isinstance(c, (ast.Attribute, ast.Subscript)) and isinstance(c.ctx, (ast.Store, ast.Del)):
                    out.append(("assign" if isinstance(c.ctx, ast.Store) else "del", c.value, ast.unparse(c)))
                elif isinstance(c, ast.AugAssign) and isinstance(c.target, (ast.Attribute, ast.Subscript)):
                    out.append(("augassign", c.target.value, ast.unparse(c.target)))
                elif isinstance(c, ast.Call):
                    f = c.func
                    src = ast.unparse(f)
                    if src in ("setattr", "delattr", "object.__setattr__", "object.__delattr__") and c.args:
                        out.append((src, c.args[0], ast.unparse(c)[:70]))
                    elif src == "vars" and c.args:
                        out.append(("vars", c.args[0], ast.unparse(c)[:70]))
                    elif src == "exec":
                        out.append(("exec", ast.Name("ns_local", ast.Load()), ast.unparse(c)[:70]))
                    elif isinstance(f, ast.Attribute) and f.attr in MUTATORS:
                        out.append(("call." + f.attr, f.value, ast.unparse(c)[:70]))
                elif isinstance(c, ast.Attribute) and c.attr == "__dict__":
                    out.append(("__dict__", c.value, ast.unparse(c)))
                visit(c)

        visit(own)
        return out


def scan() -> tuple[list[dict], list[dict]]:
    t0 = time.time()
    mods = {m: extract.load_module(m) for m in MODULES}
    ncls = set(node_classes(mods))
    all_classes = {n.name for m in mods.values() for n in ast.walk(m.tree) if isinstance(n, ast.ClassDef)}
    FnScan.all_class_names = all_classes | {"DataClassSerializeMixin", "Source"}
    obligations: list[dict] = []
    fns: list[dict] = []
    for mname, mod in mods.items():
        mglobals = set(extract.module_constants(mod)) | {t.id for st in mod.tree.body if isinstance(st, (ast.Assign, ast.AnnAssign))
                                                          for t in (st.targets if isinstance(st, ast.Assign) else [st.target]) if isinstance(t, ast.Name)}

        def walk(node: ast.AST, prefix: str, cls: str | None) -> None:
            for c in getattr(node, "body", []):
                if isinstance(c, ast.ClassDef):
                    walk(c, prefix + c.name + ".", c.name)
                elif isinstance(c, (ast.FunctionDef, ast.AsyncFunctionDef)):
                    qual = prefix + c.name
                    fs = FnScan(mod, qual, c, cls, ncls, mglobals)
                    sites = fs.sites()
                    key = f"{mname}:{qual}"
                    n_ok = 0
                    counts: dict[str, int] = {}
                    if not sites:
                        obligations.append({"name": f"{key}/no-store-site", "status": "discharged", "backend": "syntactic", "seconds": 0.0,
                                            "kind": "frame", "model": "", "info": {}})
                    for kind, target, src in sites:
                        root = _root(target)
                        status, reason = fs.classify(root, src)
                        if kind == "exec":
                            status, reason = "ok", "exec into a fresh local namespace dict (codegen)"
                        base = f"{key}/store[{kind} {src}]"
                        counts[base] = counts.get(base, 0) + 1
                        name = base if counts[base] == 1 else f"{base}#{counts[base]}"
                        obligations.append({"name": name, "status": "discharged" if status == "ok" else "refuted", "backend": "syntactic",
                                            "seconds": 0.0, "kind": "frame", "model": "" if status == "ok" else reason, "info": {"reason": reason}})
                    fns.append({"key": key, "sites": len(sites), "ast_hash": extract.fn_hash(c), "src_sha": mod.sha256})
                    walk(c, qual + ".", cls)
                elif isinstance(c, (ast.If, ast.Try, ast.With, ast.For, ast.While)):
                    walk(c, prefix, cls)
        walk(mod.tree, "", None)
        # frozen declaration of every node class of the module
        for n in ast.walk(mod.tree):
            if isinstance(n, ast.ClassDef) and n.name in ncls:
                decos = [ast.unparse(d) for d in n.decorator_list]
                frozen = any(d.startswith("dataclass") and "frozen=True" in d for d in decos)
                obligations.append({"name": f"{mname}:{n.name}/declared-frozen-dataclass", "status": "discharged" if frozen else "refuted",
                                    "backend": "syntactic", "seconds": 0.0, "kind": "frame", "model": "" if frozen else f"decorators: {decos}", "info": {}})
    return obligations, fns


def run_custom(tier: str) -> list[dict]:
    t0 = time.time()
    obs, fns = scan()
    by_fn: dict[str, list[dict]] = {}
    for o in obs:
        by_fn.setdefault(o["name"].split("/")[0], []).append(o)
    hashes = {f["key"]: f for f in fns}
    out = []
    for key, lst in by_fn.items():
        h = hashes.get(key, {})
        out.append({"kind": "fn", "area": "contracts.frame_scan", "key": key, "fn": key, "status": "ok", "error": "", "paths": 1,
                    "infeasible_paths": 0, "src_sha": h.get("src_sha", ""), "fn_hash": h.get("ast_hash", ""), "canary": "n/a",
                    "seconds": 0.0, "obligations": lst, "sample_smt2": "", "props": ["C10"], "note": "frame scan"})
    return out
