"""C06: pyoak.tree.Tree -- construction of the two tables and the upward queries.

The tables are dicts keyed by id(node); id() is modelled as the object itself used as key (injective on
live objects; the tree keeps its members alive).  Before fix deaeaff the keys were the nodes themselves
(hash(id) / ==), which answered for foreign twins of members -- witness findings/f15, re-run by the check.

Ghost view of a Tree: T_root, T_pinfo : Ref -> Opt[ParentInfo], T_xpath : Ref -> Opt[str].
  pfold(s)            = left fold of the dfs stream s storing ParentInfo(x.parent, x.field, x.findex) under x.node
  xfold(root, s)      = same for the xpath strings, starting from {root: "/@root[0]" + class name}
  chain_from(po)      = [] if po is None else [p] ++ chain_from(parent(p))        (the ancestor chain)"""
from __future__ import annotations

import z3

from pyvc.contract import Contract, Loop, Registry
from pyvc.core import mk_cons, mk_snoc
from pyvc.maps import VMap, map_sort
from pyvc.specfn import SpecLib
from pyvc.symex import World
from pyvc.values import BOOL, INT, NONE, STR, V, VBool, VHeapRef, VInt, VOpt, VPy, VStr, VU, opt_of, rec_sort, seq_of, usort
from pyvc.verify import Lemma

from .node_common import NodeVocab

TM = "pyoak.tree"


def build():
    reg = Registry()
    world = World(reg)
    lib = SpecLib()
    nv = NodeVocab(world, lib)
    REF, INFO, FLD, CLS = nv.REF, nv.INFO, nv.FLD, nv.CLS
    OREF, OINT = opt_of(REF), opt_of(INT)
    PI = rec_sort("ParentInfo", [("parent", REF), ("field", FLD), ("findex", OINT)], pycls="ParentInfo", tuple_like=True)
    world.rec_of_class["ParentInfo"] = PI
    world.class_parents["ParentInfo"] = []
    PM, XM = map_sort(REF, PI), map_sort(REF, STR)
    SI, SR = seq_of(INFO), seq_of(REF)
    TREE = usort("TreeObj")
    desc = lib.fn("desc", [REF], SI)
    pfold = lib.fn("pfold", [SI], PM)
    xfold = lib.fn("xfold", [REF, SI], XM)
    nodes_of = lib.fn("nodes_of", [SI], SR)
    pre_closed = lib.fn("pre_closed", [REF, SI], BOOL)
    node_of = lambda x: INFO.get(x, "node").term
    par_of = lambda x: INFO.get(x, "parent").term

    def pi_of(x):
        return PI.mk(INFO.get(x, "parent"), INFO.get(x, "field"), INFO.get(x, "findex")).term

    def idx_str(x):
        fi = INFO.get(x, "findex").term
        i = OINT.val(fi)
        # `findex or '0'`: None and 0 both print as 0
        return z3.If(z3.Or(OINT.is_none(fi), i == 0), z3.StringVal("0"), z3.If(i >= 0, z3.IntToStr(i), z3.Concat(z3.StringVal("-"), z3.IntToStr(-i))))

    def seg(x):
        return z3.Concat(z3.StringVal("/@"), nv.fname(INFO.get(x, "field").term), z3.StringVal("["), idx_str(x), z3.StringVal("]"), nv.cls_name(nv.cls_of(node_of(x))))

    def root_xp(r):
        return z3.Concat(z3.StringVal("/@root[0]"), nv.cls_name(nv.cls_of(r)))

    pfold.rule("pfold-empty", 0, "empty")(lambda a, p: PM.empty().term)
    pfold.rule("pfold-snoc", 0, "snoc")(lambda a, p: z3.Store(pfold.t(p[0]), node_of(p[1]), PM.opt.some(PI.wrap(pi_of(p[1]))).term))
    xfold.rule("xfold-empty", 1, "empty")(lambda a, p: z3.Store(XM.empty().term, a[0], XM.opt.some(VStr(root_xp(a[0]))).term))
    xfold.rule("xfold-snoc", 1, "snoc")(lambda a, p: z3.Store(xfold.t(a[0], p[0]), node_of(p[1]),
                                                              XM.opt.some(VStr(z3.Concat(XM.opt.val(z3.Select(xfold.t(a[0], p[0]), par_of(p[1]))), seg(p[1])))).term))
    nodes_of.rule("nodes_of-empty", 0, "empty")(lambda a, p: z3.Empty(SR.z3()))
    nodes_of.rule("nodes_of-snoc", 0, "snoc")(lambda a, p: mk_snoc(nodes_of.t(p[0]), node_of(p[1])))
    pre_closed.rule("pre_closed-empty", 1, "empty")(lambda a, p: z3.BoolVal(True))
    pre_closed.rule("pre_closed-snoc", 1, "snoc")(lambda a, p: z3.And(pre_closed.t(a[0], p[0]),
                                                                      z3.Or(par_of(p[1]) == a[0], z3.Contains(nodes_of.t(p[0]), z3.Unit(par_of(p[1]))))))
    # prefix closure (lemma pre_closed-prefix): pre_closed(r, a ++ b) => pre_closed(r, a)
    pre_closed.rule("pre_closed-prefix", 1, "concat", "lemma", raw=True)(lambda a, p: z3.Implies(pre_closed.t(a[0], z3.Concat(p[0], p[1])), pre_closed.t(a[0], p[0])))
    sf = world.spec_fns
    sf.update({"desc": desc, "pfold": pfold, "xfold": xfold, "nodes_of": nodes_of, "pre_closed": pre_closed})
    sf["xhas"] = lambda m, n: VBool(z3.Not(XM.opt.is_none(z3.Select(m.term, REF.coerce(n).term))))
    sf["phas"] = lambda m, n: VBool(z3.Not(PM.opt.is_none(z3.Select(m.term, REF.coerce(n).term))))
    sf["pget"] = lambda m, n: VOpt(z3.Select(m.term, REF.coerce(n).term), PM.opt)
    sf["xget"] = lambda m, n: VOpt(z3.Select(m.term, REF.coerce(n).term), XM.opt)
    sf["member"] = lambda s, n: VBool(z3.Contains(s.term, z3.Unit(nv.ref(n))))

    # ---- the Tree object's three attributes as ghost globals -------------------------------------
    G = {"T_root": "Ref", "T_pinfo": "Dict[Ref,ParentInfo]", "T_xpath": "Dict[Ref,str]"}
    ATTR = {"_root": "T_root", "_node_to_parent_info": "T_pinfo", "_node_to_xpath": "T_xpath"}

    def attr(m, obj, name):
        if isinstance(obj, VU) and obj.sort == TREE and name in ATTR:
            v = m.global_syms[ATTR[name]]
            if m.spec and isinstance(v, VHeapRef):
                return m.deref_spec(v)
            return v
        return None

    def call(m, func, args, kwargs, node):
        if isinstance(func, VPy) and func.obj == ("setattr",) and isinstance(args[0], VU) and args[0].sort == TREE:
            name = args[1].obj
            if name in ATTR:
                m.global_syms[ATTR[name]] = args[2]
                return NONE
        return NotImplemented

    world.attr_hooks.insert(0, attr)
    world.call_hooks.append(call)
    world.usort_class["TreeObj"] = "Tree"
    world.class_parents["Tree"] = []
    world.class_module["Tree"] = TM
    A = reg.add
    P = ["C06"]
    A(Contract("pyoak.node:ASTNode.dfs", params={"self": "Ref", "prune": "Opt[Fn]", "filter": "Opt[Fn]", "bottom_up": "bool"}, returns="Seq[Info]", props=P,
               trusted=True, trusted_reason="proved under C05: pre-order stream desc(self); additionally assumed here: in a pre-order stream every element's parent is the start node or the node of an earlier element (pre_closed), and this holds for every prefix",
               ensures=["implies(prune is None and filter is None and not bottom_up, result == desc(self))", "pre_closed(self, result)"]))
    A(Contract(f"{TM}:Tree.__init__", params={"self": "TreeObj", "root": "Ref"}, globals=G, modifies=["T_root", "T_pinfo", "T_xpath"], props=P,
               locals={"._node_to_parent_info": "Dict[Ref,ParentInfo]", "._node_to_xpath": "Dict[Ref,str]"},
               ensures=["T_root == root", "T_pinfo == pfold(desc(root))", "T_xpath == xfold(root, desc(root))"],
               loops={1: Loop(inv=["T_pinfo == pfold(done1)", "T_xpath == xfold(root, done1)", "pre_closed(root, done1)", "pre_closed(root, seq1)",
                                   "T_root == root"],
                              )},
               note="no KeyError can escape: a node's parent xpath is stored before the node is reached (pre-order)"))
    # ---- queries ---------------------------------------------------------------------------------------
    INV = ["T_pinfo == pfold(desc(T_root))", "T_xpath == xfold(T_root, desc(T_root))", "pre_closed(T_root, desc(T_root))"]
    chain_from = lib.fn("chain_from", [PM, REF, OREF], SR)

    def parentopt_t(Pm, root, n):
        return z3.If(n == root, OREF.none().term, OREF.some(REF.wrap(PI.get(PM.opt.val(z3.Select(Pm, n)), "parent").term)).term)

    chain_from.rule("chain_from-def", 2, "always")(lambda a, p: z3.If(OREF.is_none(a[2]), z3.Empty(SR.z3()),
                                                                    mk_cons(OREF.val(a[2]), chain_from.t(a[0], a[1], parentopt_t(a[0], a[1], OREF.val(a[2]))))))
    sf["chain_from"] = chain_from
    sf["parentopt"] = lambda Pm, root, n: VOpt(parentopt_t(Pm.term, root.term, REF.coerce(n).term), OREF)
    sf["in_tree"] = lambda root, n: VBool(z3.Or(nv.ref(n) == root.term, z3.Contains(nodes_of.t(desc.t(root.term)), z3.Unit(nv.ref(n)))))
    KE = "not in_tree(T_root, node)"
    Q = dict(globals=G, props=P, requires=INV)
    A(Contract(f"{TM}:Tree.is_root", params={"self": "TreeObj", "node": "Ref"}, returns="bool", ensures=["result == (node == T_root)"], **Q))
    A(Contract(f"{TM}:Tree.is_in_tree", params={"self": "TreeObj", "node": "Ref"}, returns="bool", ensures=["result == in_tree(T_root, node)"], **Q,
               note="exactly the root and the nodes of its descendant stream (table domain lemma xfold-dom)"))
    A(Contract(f"{TM}:Tree.get_xpath", params={"self": "TreeObj", "node": "Ref"}, returns="str", raises=[("KeyError", KE)],
               ensures=["result == xget(T_xpath, node)"], **Q))
    A(Contract(f"{TM}:Tree.get_parent", params={"self": "TreeObj", "node": "Ref"}, returns="Opt[Ref]", raises=[("KeyError", KE)],
               ensures=["result == parentopt(T_pinfo, T_root, node)", "implies(result is not None, in_tree(T_root, result))"], **Q,
               note="None for the root; otherwise the parent recorded for the node's position; a member's parent is a member (closure lemma pfold-closed)"))
    A(Contract(f"{TM}:Tree.get_parent_info", params={"self": "TreeObj", "node": "Ref"}, returns="Tuple[Opt[Ref],Opt[Fld],Opt[int]]", raises=[("KeyError", KE)],
               ensures=["implies(node == T_root, result[0] is None and result[1] is None and result[2] is None)",
                        "implies(node != T_root, result[0] == pget(T_pinfo, node).parent and result[1] == pget(T_pinfo, node).field and result[2] == pget(T_pinfo, node).findex)"], **Q))
    A(Contract(f"{TM}:Tree.get_ancestors", params={"self": "TreeObj", "node": "Ref"}, returns="Seq[Ref]", raises=[("KeyError", KE)],
               locals={"parent": "Opt[Ref]"},
               ensures=["result == chain_from(T_pinfo, T_root, parentopt(T_pinfo, T_root, node))"],
               loops={1: Loop(inv=["out + chain_from(T_pinfo, T_root, parent) == chain_from(T_pinfo, T_root, parentopt(T_pinfo, T_root, node))",
                                   "implies(parent is not None, in_tree(T_root, parent))"] + INV)}, **Q,
               note="the parent chain up to the root; partial correctness (termination = finite depth, not machine-checked)"))
    A(Contract(f"{TM}:Tree.is_ancestor", params={"self": "TreeObj", "node": "Ref", "ancestor": "Ref"}, returns="bool", raises=[("KeyError", KE)],
               ensures=["result == member(chain_from(T_pinfo, T_root, parentopt(T_pinfo, T_root, node)), ancestor)"],
               loops={1: Loop(inv=["not member(done1, ancestor)"])}, **Q))
    A(Contract(f"{TM}:Tree.get_first_ancestor_of_type", variant_of=None, params={"self": "TreeObj", "node": "Ref", "ancestor_class": "Cls", "exact_type": "bool"},
               returns="Opt[Ref]", raises=[("KeyError", KE)],
               ensures=["implies(result is not None, member(chain_from(T_pinfo, T_root, parentopt(T_pinfo, T_root, node)), result) and "
                        "(cls_of(result) == ancestor_class if exact_type else subclass(cls_of(result), ancestor_class)))",
                        "implies(result is None, no_match(chain_from(T_pinfo, T_root, parentopt(T_pinfo, T_root, node)), ancestor_class, exact_type))"],
               loops={1: Loop(inv=["no_match(done1, ancestor_class, exact_type)"])}, **Q,
               note="single-class variant (a tuple of classes goes through the same loop with a disjunctive class test)"))
    depth_to = lib.fn("depth_to", [PM, REF, REF, OREF], INT)

    def depth_rhs(a, p):
        po = parentopt_t(a[0], a[1], a[2])
        par = OREF.val(po)
        return z3.If(OREF.is_none(po), z3.IntVal(0),
                     z3.If(z3.And(z3.Not(OREF.is_none(a[3])), par == OREF.val(a[3])), z3.IntVal(1), 1 + depth_to.t(a[0], a[1], par, a[3])))

    depth_to.rule("depth_to-def", 2, "always")(depth_rhs)
    sf["depth_to"] = depth_to
    CH = "chain_from(T_pinfo, T_root, parentopt(T_pinfo, T_root, node))"
    A(Contract(f"{TM}:Tree.get_depth", params={"self": "TreeObj", "node": "Ref", "relative_to": "Opt[Ref]", "check_ancestor": "bool"}, returns="int",
               raises=[("KeyError", KE), ("ValueError", f"relative_to is not None and check_ancestor and not member({CH}, relative_to)")],
               ensures=["result == depth_to(T_pinfo, T_root, node, relative_to)"], **Q,
               note="depth_to: 0 at the root, 1 when the parent is relative_to, else 1 + depth of the parent -- the number of chain steps up to relative_to / the root; "
                    "ValueError exactly for a relative_to that is not on the chain; recursion uses this contract as induction hypothesis (termination not machine-checked)"))
    no_match = lib.fn("no_match", [SR, CLS, BOOL], BOOL)
    no_match.rule("no_match-empty", 0, "empty")(lambda a, p: z3.BoolVal(True))
    no_match.rule("no_match-snoc", 0, "snoc")(lambda a, p: z3.And(no_match.t(p[0], a[1], a[2]),
                                                                  z3.Not(z3.If(a[2], nv.cls_of(p[1]) == a[1], nv.subclass(nv.cls_of(p[1]), a[1])))))
    sf["no_match"] = no_match

    def isinst_cls(m, v, cls):
        from pyvc.values import VCls, VTuple
        if isinstance(v, VU) and v.sort == CLS and getattr(cls, "name", "") == "tuple":
            return z3.BoolVal(False)
        return None

    world.isinstance_hooks.insert(0, isinst_cls)

    def call_in(m, func, args, kwargs, node):
        return NotImplemented
    # `type(ancestor) in ancestor_classes` with a one-element tuple of a symbolic class
    # domain of the xpath table: proved as lemma xfold-dom (base + step), then available as a quantified
    # axiom with an explicit pattern on the table lookup
    r_, p_ = z3.Const("r_xd", REF.z3()), z3.Const("p_xd", REF.z3())
    s_ = z3.Const("s_xd", SI.z3())
    xdom = lambda r, s, p: z3.Not(XM.opt.is_none(z3.Select(xfold.t(r, s), p))) == z3.Or(p == r, z3.Contains(nodes_of.t(s), z3.Unit(p)))

    def inst_xdom(formulas):
        """instances of lemma xfold-dom at every xfold(r, s) application x every index term of a lookup in an xpath table"""
        apps, idx = {}, {}
        stack, seen = list(formulas), set()
        while stack:
            t = stack.pop()
            if t.get_id() in seen or not z3.is_app(t):
                continue
            seen.add(t.get_id())
            if t.decl().get_id() == xfold.decl.get_id():
                apps[t.get_id()] = t
            if t.decl().kind() == z3.Z3_OP_SELECT and t.arg(0).sort() == XM.z3():
                idx[t.arg(1).get_id()] = t.arg(1)
            stack.extend(t.children())
        return [xdom(a.arg(0), a.arg(1), p) for a in apps.values() for p in idx.values()]

    inst_xdom.encodes = {"xfold-dom"}            # off while that lemma is proved (no circularity)
    lib.extra_instantiators.append(inst_xdom)
    phas_t = lambda m, p: z3.Not(PM.opt.is_none(z3.Select(m, p)))
    pdom = lambda s, p: phas_t(pfold.t(s), p) == z3.Contains(nodes_of.t(s), z3.Unit(p))
    pclosed = lambda r, s, p: z3.Implies(z3.And(pre_closed.t(r, s), phas_t(pfold.t(s), p)),
                                         z3.Or(PI.get(PM.opt.val(z3.Select(pfold.t(s), p)), "parent").term == r,
                                               z3.Contains(nodes_of.t(s), z3.Unit(PI.get(PM.opt.val(z3.Select(pfold.t(s), p)), "parent").term))))

    def inst_pdom(formulas):
        apps, idx, roots = {}, {}, {}
        stack, seen = list(formulas), set()
        while stack:
            t = stack.pop()
            if t.get_id() in seen or not z3.is_app(t):
                continue
            seen.add(t.get_id())
            if t.decl().get_id() == pfold.decl.get_id():
                apps[t.get_id()] = t
            if t.decl().get_id() == pre_closed.decl.get_id():
                roots[t.arg(0).get_id()] = t.arg(0)
            if t.decl().kind() == z3.Z3_OP_SELECT and t.arg(0).sort() == PM.z3():
                idx[t.arg(1).get_id()] = t.arg(1)
            stack.extend(t.children())
        out = [pdom(a.arg(0), p) for a in apps.values() for p in idx.values()]
        out += [pclosed(r, a.arg(0), p) for a in apps.values() for p in idx.values() for r in roots.values()]
        return out

    inst_pdom.encodes = {"pfold-dom", "pfold-closed"}
    lib.extra_instantiators.append(inst_pdom)

    def xd_base(bank):
        return [], xdom(r_, z3.Empty(SI.z3()), p_)

    q_ = z3.Const("q_xd", REF.z3())

    def xd_step(bank):
        x = z3.Const("x_xd", INFO.z3())
        # the induction hypothesis holds for every key; it is needed at the key asked about and at the new element's node and parent
        return [xdom(r_, s_, k_) for k_ in (p_, node_of(x), par_of(x))], xdom(r_, mk_snoc(s_, x), p_)
    def pc_base(bank):
        a = z3.Const("a_pc", SI.z3())
        return [], z3.Implies(pre_closed.t(r_, z3.Concat(a, z3.Empty(SI.z3()))), pre_closed.t(r_, a))

    def pc_step(bank):
        a, b = z3.Const("a_pc", SI.z3()), z3.Const("b_pc", SI.z3())
        y = z3.Const("y_pc", INFO.z3())
        ih = z3.Implies(pre_closed.t(r_, z3.Concat(a, b)), pre_closed.t(r_, a))
        whole = z3.Concat(a, mk_snoc(b, y))
        bank.add(whole, ("snoc", z3.Concat(a, b), y))
        return [ih], z3.Implies(pre_closed.t(r_, whole), pre_closed.t(r_, a))
    lem0 = Lemma("pre_closed-prefix", [("base", pc_base), ("step", pc_step)], P, note="every prefix of a parent-closed stream is parent-closed")
    def pd_base(bank):
        return [], pdom(z3.Empty(SI.z3()), p_)

    def pd_step(bank):
        x = z3.Const("x_pd", INFO.z3())
        return [pdom(s_, k_) for k_ in (p_, node_of(x))], pdom(mk_snoc(s_, x), p_)

    def pcl_base(bank):
        return [], pclosed(r_, z3.Empty(SI.z3()), p_)

    def pcl_step(bank):
        x = z3.Const("x_pcl", INFO.z3())
        keys = (p_, node_of(x), par_of(x))
        # induction hypothesis and lemma pfold-dom for the shorter stream, at the keys involved
        return [pclosed(r_, s_, k_) for k_ in keys] + [pdom(s_, k_) for k_ in keys], pclosed(r_, mk_snoc(s_, x), p_)
    lem1 = Lemma("pfold-dom", [("base", pd_base), ("step", pd_step)], P, note="has(pfold(s), p) <=> p is the node of an element of s")
    lem2 = Lemma("pfold-closed", [("base", pcl_base), ("step", pcl_step)], P, note="in a parent-closed stream the recorded parent of a member is the root or a member")
    lem = [lem0, lem1, lem2, Lemma("xfold-dom", [("base", xd_base), ("step", xd_step)], P, note="has(xfold(root, s), p) <=> p is root or p is the node of an element of s")]
    return world, lib, reg, lem
