"""C14 (duplicate): ASTNode.duplicate against an inductively defined duplicate relation.

Child field values are FieldVal = none | one(node) | many(tuple of nodes); cfields(n) : Seq[(FieldVal, Fld)]
is what iter_child_fields yields (proved per class under C12).
  replaced_with(a, ch, b)   b is dataclasses.replace(a, **ch): a *new* object of a's class whose init fields are a's
                            own values (the very same objects: properties, origin) except the fields named in ch
  entry_ok(p, ch)           the change entry for one child field: nothing for an empty optional, one(y) with is_dup(x, y)
                            for a node x, many(ys) with all_dup(xs, ys) for a tuple xs
  changes_ok(cf, ch)        entry_ok for every field of cf (fold)
  is_dup(a, b)              introduction rule:  replaced_with(a, ch, b) and changes_ok(cfields(a), ch)  =>  is_dup(a, b)
  all_dup(xs, ys)           element-wise is_dup with equal length (opaque: the induction hypothesis over a tuple's elements)
duplicate() is proved to return b with is_dup(self, b), the recursive calls being the induction hypothesis.
The registry clauses of C14 (every copy registered under a free id) are C03's __post_init__ contract."""
from __future__ import annotations

import ast

import z3

from pyvc.contract import Contract, Loop, Registry
from pyvc.core import mk_snoc
from pyvc.maps import VMap, map_sort
from pyvc.specfn import SpecLib
from pyvc.symex import RaiseSig, World
from pyvc.values import BOOL, INT, NONE, STR, EngineError, V, VBool, VBound, VCls, VExc, VHeapRef, VNone, VPy, VSeq, VStr, VU, fresh_name, rec_sort, seq_of, usort
from pyvc.verify import Lemma

from .node_common import M, NodeVocab


def field_vocab(world, lib, nv):
    """FieldVal / cfields vocabulary shared by duplicate (C14) and _transform_children (C09)."""
    REF, FLD = nv.REF, nv.FLD
    SR = seq_of(REF)
    FV = usort("FieldVal")
    FVF = rec_sort("FieldValAndField", [("val", FV), ("field", FLD)], tuple_like=True)
    SFVF = seq_of(FVF)
    kind = z3.Function("fv_kind", FV.z3(), z3.IntSort())          # 0 none, 1 one node, 2 tuple of nodes
    node = z3.Function("fv_node", FV.z3(), REF.z3())
    items = z3.Function("fv_items", FV.z3(), SR.z3())
    mk_one = z3.Function("fv_one", REF.z3(), FV.z3())
    mk_many = z3.Function("fv_many", SR.z3(), FV.z3())
    cfields = z3.Function("cfields", REF.z3(), SFVF.z3())
    d = dict(FV=FV, FVF=FVF, SFVF=SFVF, SR=SR, kind=kind, node=node, items=items, mk_one=mk_one, mk_many=mk_many, cfields=cfields)

    def one(m, r):
        t = mk_one(r.term)
        m.ctx.assume(z3.And(kind(t) == 1, node(t) == r.term))
        return FV.wrap(t)

    def many(m, s):
        t = mk_many(s.term)
        m.ctx.assume(z3.And(kind(t) == 2, items(t) == s.term))
        return FV.wrap(t)

    mk_list = z3.Function("fv_list", SR.z3(), FV.z3())           # a Python list of nodes (kind 3): only ever an intermediate value
    FV_NONE = FV.fresh("FV_NONE")
    world.axioms.append(kind(FV_NONE.term) == 0)

    def lst(m, s):
        t = mk_list(s.term)
        m.ctx.assume(z3.And(kind(t) == 3, items(t) == s.term))
        return FV.wrap(t)

    def ctor_facts(formulas):
        """constructor facts for every fv_one / fv_many / fv_list application occurring in the VC"""
        out, seen, stack = [], set(), list(formulas)
        while stack:
            f = stack.pop()
            if not z3.is_app(f) or f.get_id() in seen:
                continue
            seen.add(f.get_id())
            nm = f.decl().name()
            if nm == "fv_one":
                out.append(z3.And(kind(f) == 1, node(f) == f.arg(0)))
            elif nm == "fv_many":
                out.append(z3.And(kind(f) == 2, items(f) == f.arg(0)))
            elif nm == "fv_list":
                out.append(z3.And(kind(f) == 3, items(f) == f.arg(0)))
            stack.extend(f.children())
        return out

    lib.extra_instantiators.append(ctor_facts)
    d["one"], d["many"], d["lst"], d["mk_list"], d["FV_NONE"] = one, many, lst, mk_list, FV_NONE

    def isinst(m, v, cls):
        if isinstance(v, VU) and v.sort == FV:
            name = getattr(cls, "name", None)
            if name == "ASTNode":
                return kind(v.term) == 1
            if name == "tuple" or (isinstance(cls, VPy) and cls.obj == ("builtin", "tuple")):
                return kind(v.term) == 2
        return None

    def coerce(m, v, sname):
        if sname == "FieldVal":
            if isinstance(v, VU) and v.sort == REF:
                return one(m, v)
            if isinstance(v, VSeq) and v.sort == SR:
                return many(m, v)
            if isinstance(v, VHeapRef) and m.ctx.cell(v.addr).kind == "list":
                sv = m.seq_value(v)
                if sv is None:
                    return lst(m, SR.empty())        # a fresh empty list
                if sv.sort == SR:
                    return lst(m, sv)
            if isinstance(v, VNone):
                return FV_NONE
            from pyvc.values import VOpt as _VOpt
            if isinstance(v, _VOpt) and v.sort.elem == REF:
                return FV.wrap(z3.If(v.sort.is_none(v.term), FV_NONE.term, mk_one(v.sort.val(v.term))))
        return None

    world.isinstance_hooks.insert(0, isinst)
    world.coerce_hooks = getattr(world, "coerce_hooks", []) + [coerce]
    world.name_hooks.append(lambda m, n: VCls(n) if n in ("ASTNode",) else None)
    sf = world.spec_fns
    sf["cfields"] = lambda n: SFVF.wrap(cfields(nv.ref(n)))
    sf["fv_kind"] = lambda v: __import__("pyvc.values", fromlist=["VInt"]).VInt(kind(v.term))
    return d


def build():
    reg = Registry()
    world = World(reg)
    lib = SpecLib()
    nv = NodeVocab(world, lib)
    REF, FLD = nv.REF, nv.FLD
    fv = field_vocab(world, lib, nv)
    FV, FVF, SFVF, SR = fv["FV"], fv["FVF"], fv["SFVF"], fv["SR"]
    kind, node, items, cfields = fv["kind"], fv["node"], fv["items"], fv["cfields"]
    CH = map_sort(STR, FV)
    sf = world.spec_fns
    OFV = CH.opt
    replaced_with = z3.Function("replaced_with", REF.z3(), CH.z3(), REF.z3(), z3.BoolSort())
    is_dup = z3.Function("is_dup", REF.z3(), REF.z3(), z3.BoolSort())
    all_dup = z3.Function("all_dup", SR.z3(), SR.z3(), z3.BoolSort())
    v_of = lambda p: FVF.get(FVF.wrap(p).term, "val").term
    n_of = lambda p: nv.fname(FVF.get(FVF.wrap(p).term, "field").term)
    present = lambda ch, k: z3.Not(OFV.is_none(z3.Select(ch, k)))
    got = lambda ch, k: OFV.val(z3.Select(ch, k))

    def entry_ok(p, ch):
        v, k = v_of(p), n_of(p)
        return z3.If(kind(v) == 1, z3.And(present(ch, k), kind(got(ch, k)) == 1, is_dup(node(v), node(got(ch, k)))),
                     z3.If(kind(v) == 2, z3.And(present(ch, k), kind(got(ch, k)) == 2, all_dup(items(v), items(got(ch, k)))),
                           z3.Not(present(ch, k))))

    changes_ok = lib.fn("changes_ok", [SFVF, CH], BOOL)
    has_name = lib.fn("has_field_name", [SFVF, STR], BOOL)
    nodup = lib.fn("distinct_field_names", [SFVF], BOOL)
    kinds_ok = lib.fn("field_kinds_ok", [SFVF], BOOL)
    changes_ok.rule("changes_ok-empty", 0, "empty")(lambda a, p: z3.BoolVal(True))
    changes_ok.rule("changes_ok-snoc", 0, "snoc")(lambda a, p: z3.And(changes_ok.t(p[0], a[1]), entry_ok(p[1], a[1])))
    has_name.rule("has_field_name-empty", 0, "empty")(lambda a, p: z3.BoolVal(False))
    has_name.rule("has_field_name-snoc", 0, "snoc")(lambda a, p: z3.Or(has_name.t(p[0], a[1]), n_of(p[1]) == a[1]))
    nodup.rule("distinct_field_names-empty", 0, "empty")(lambda a, p: z3.BoolVal(True))
    nodup.rule("distinct_field_names-snoc", 0, "snoc")(lambda a, p: z3.And(nodup.t(p[0]), z3.Not(has_name.t(p[0], n_of(p[1])))))
    nodup.rule("distinct_field_names-prefix", 0, "concat", "lemma", raw=True)(lambda a, p: z3.Implies(nodup.t(z3.Concat(p[0], p[1])), nodup.t(p[0])))
    kinds_ok.rule("field_kinds_ok-empty", 0, "empty")(lambda a, p: z3.BoolVal(True))
    kinds_ok.rule("field_kinds_ok-snoc", 0, "snoc")(lambda a, p: z3.And(kinds_ok.t(p[0]), kind(v_of(p[1])) >= 0, kind(v_of(p[1])) <= 2))
    kinds_ok.rule("field_kinds_ok-prefix", 0, "concat", "lemma", raw=True)(lambda a, p: z3.Implies(kinds_ok.t(z3.Concat(p[0], p[1])), kinds_ok.t(p[0])))

    # frame lemma: an entry stored under a name that no processed field has does not disturb the processed entries
    def frame_instances(formulas):
        out, seen = [], set()
        stack = list(formulas)
        apps = []
        stores = []
        while stack:
            f = stack.pop()
            if not z3.is_app(f) or f.get_id() in seen:
                continue
            seen.add(f.get_id())
            if f.decl().name() == "changes_ok":
                apps.append(f)
            if f.decl().kind() == z3.Z3_OP_STORE and f.sort() == CH.z3():
                stores.append(f)
            stack.extend(f.children())
        for st in stores:
            base, k, v = st.arg(0), st.arg(1), st.arg(2)
            for ap in apps:
                s_ = ap.arg(0)
                out.append(z3.Implies(z3.And(changes_ok.t(s_, base), z3.Not(has_name.t(s_, k))), changes_ok.t(s_, st)))
        return out

    lib.extra_instantiators.append(frame_instances)
    # changes_within(ch, s): every key of ch is the name of a field of s  (forall k. k in ch => has_field_name(s, k)).
    # Used through four consequences of that definition, each proved below as a quantified lemma (z3) and instantiated here at the terms of the VC.
    within = z3.Function("changes_within", CH.z3(), SFVF.z3(), z3.BoolSort())

    def within_instances(formulas):
        out, seen = [], set()
        stack = list(formulas)
        apps, keys = [], {}
        while stack:
            f = stack.pop()
            if not z3.is_app(f) or f.get_id() in seen:
                continue
            seen.add(f.get_id())
            if f.decl().name() == "changes_within":
                apps.append(f)
            if f.decl().kind() in (z3.Z3_OP_STORE, z3.Z3_OP_SELECT) and f.arg(0).sort() == CH.z3():
                keys[f.arg(1).get_id()] = f.arg(1)
            stack.extend(f.children())
        emitted = set()

        def emit(x):
            if x.get_id() not in emitted:
                emitted.add(x.get_id())
                out.append(x)
        for ap in apps:
            mp, s_ = ap.arg(0), ap.arg(1)
            maps = [mp]
            if z3.is_app(mp) and mp.decl().kind() == z3.Z3_OP_STORE:
                base, k = mp.arg(0), mp.arg(1)
                maps.append(base)
                emit(z3.Implies(z3.And(within(base, s_), has_name.t(s_, k)), within(mp, s_)))                      # W-store
            if z3.is_app(mp) and mp.decl().kind() == z3.Z3_OP_CONST_ARRAY:
                emit(z3.Implies(OFV.is_none(mp.arg(0)), within(mp, s_)))                                             # W-empty
            if z3.is_app(s_) and s_.decl().kind() == z3.Z3_OP_SEQ_CONCAT and s_.num_args() == 2 and s_.arg(1).decl().kind() == z3.Z3_OP_SEQ_UNIT:
                for m_ in maps:
                    emit(z3.Implies(within(m_, s_.arg(0)), within(m_, s_)))                                          # W-mono
            for k in keys.values():
                for m_ in maps:
                    emit(z3.Implies(z3.And(within(m_, s_), z3.Not(has_name.t(s_, k))), z3.Not(present(m_, k))))    # W-elim
                    if z3.is_app(s_) and s_.decl().kind() == z3.Z3_OP_SEQ_CONCAT and s_.num_args() == 2 and s_.arg(1).decl().kind() == z3.Z3_OP_SEQ_UNIT:
                        emit(z3.Implies(z3.And(within(m_, s_.arg(0)), z3.Not(has_name.t(s_.arg(0), k))), z3.Not(present(m_, k))))
        return out

    lib.extra_instantiators.append(within_instances)
    sf["changes_within"] = lambda c, s_: VBool(within(c.term, SFVF.coerce(s_).term))

    # introduction rule of is_dup
    def dup_intro(formulas):
        out, seen = [], set()
        stack = list(formulas)
        while stack:
            f = stack.pop()
            if not z3.is_app(f) or f.get_id() in seen:
                continue
            seen.add(f.get_id())
            if f.decl().name() == "replaced_with":
                a, ch, b = f.arg(0), f.arg(1), f.arg(2)
                out.append(z3.Implies(z3.And(f, changes_ok.t(cfields(a), ch)), is_dup(a, b)))
            stack.extend(f.children())
        return out

    lib.extra_instantiators.append(dup_intro)
    sf.update({"changes_ok": changes_ok, "distinct_field_names": nodup, "field_kinds_ok": kinds_ok,
               "is_dup": lambda a, b: VBool(is_dup(nv.ref(a), nv.ref(b)))})
    G = {"config.TRACE_LOGGING": "bool"}

    def attr(m, obj, name):
        if isinstance(obj, VU) and obj.sort == FV and name == "duplicate":
            return VBound(obj, "duplicate")
        if isinstance(obj, VU) and obj.sort == REF and name == "duplicate":
            return VBound(obj, "duplicate")
        return None

    def call(m, func, a, kw, nd):
        if isinstance(func, VBound) and func.name == "duplicate" and isinstance(func.recv, VU):
            r = func.recv
            x = REF.wrap(node(r.term)) if r.sort == FV else r
            return m.call_contract(f"{M}:ASTNode.duplicate#callee", [x], {})
        if isinstance(func, VPy) and func.obj == ("builtin", "replace") and isinstance(a[0], VU) and a[0].sort == REF:
            # dataclasses.replace(self, **changes): may raise (construction can be rejected); otherwise a new object
            if m.ctx.branch(z3.Bool(fresh_name("construction_raises"))):
                raise RaiseSig(VExc("Exception"))
            ch = kw.get("**")
            chv = m.ctx.cell(ch.addr).value if isinstance(ch, VHeapRef) else ch
            b = REF.fresh("replaced")
            m.ctx.assume(z3.And(replaced_with(a[0].term, chv.term, b.term), b.term != a[0].term, nv.cls_of(b.term) == nv.cls_of(a[0].term)))
            return b
        return NotImplemented

    def comp_dups(m, sv, gen, e):
        it = m.eval(gen.iter)
        if not (isinstance(it, VU) and it.sort == FV):
            raise EngineError("duplicate comprehension over something that is not a child field value")
        # every element's duplicate() may raise; otherwise element-wise duplicates (induction hypothesis)
        if m.ctx.branch(z3.Bool(fresh_name("element_duplicate_raises"))):
            raise RaiseSig(VExc("Exception"))
        ys = SR.fresh("dups")
        m.ctx.assume(all_dup(items(it.term), ys.term))
        return ys

    world.attr_hooks.insert(0, attr)
    world.call_hooks.insert(0, call)
    world.comp_hooks = {"c.duplicate() for c in": comp_dups}
    A = reg.add
    P = ["C14"]
    A(Contract(f"{M}:ASTNode.iter_child_fields", params={"self": "Ref", "sort_keys": "bool"}, returns="Seq[FieldValAndField]", props=P, trusted=True,
               trusted_reason="the specialised accessor generated per class, proved under C12 (one pair per child field, in declaration order, the stored value as-is)",
               ensures=["result == cfields(self)"]))
    A(Contract(f"{M}:ASTNode.duplicate", variant_of="callee", params={"self": "Ref"}, returns="Ref", props=P, trusted=True, globals=G,
               trusted_reason="proved below; at the recursive calls it is the induction hypothesis (on the height of the tree)",
               raises=[("Exception", "*")], ensures=["is_dup(self, result)"]))
    reg.contracts[f"{M}:ASTNode.duplicate#callee"].fn = f"{M}:ASTNode.duplicate"
    A(Contract(f"{M}:ASTNode.duplicate", params={"self": "Ref"}, returns="Ref", props=P, globals=G,
               requires=["distinct_field_names(cfields(self))", "field_kinds_ok(cfields(self))"],
               locals={"changes": "Dict[str,FieldVal]"}, may_raise=["Exception"],
               ensures=["is_dup(self, result)", "result != self", "cls_of(result) == cls_of(self)"],
               loops={1: Loop(inv=["changes_ok(done1, changes)", "changes_within(changes, done1)", "distinct_field_names(seq1)", "field_kinds_ok(seq1)", "seq1 == cfields(self)"])},
               note="the result is a new object of the same class built by dataclasses.replace from the original's own field values (properties, origin: the very same objects), "
                    "in which every child node is replaced by its duplicate, every tuple of children by the tuple of their duplicates, and empty optional fields stay empty"))
    # ---- lemmas ------------------------------------------------------------------------------------------------
    s_, p_ = z3.Const("s_fr", SFVF.z3()), z3.Const("p_fr", FVF.z3())
    ch_, k_, v_ = z3.Const("ch_fr", CH.z3()), z3.Const("k_fr", z3.StringSort()), z3.Const("v_fr", OFV.z3())

    def frame(s):
        return z3.Implies(z3.And(changes_ok.t(s, ch_), z3.Not(has_name.t(s, k_))), changes_ok.t(s, z3.Store(ch_, k_, v_)))

    def fr_base(bank):
        return [], frame(z3.Empty(SFVF.z3()))

    def fr_step(bank):
        whole = mk_snoc(s_, p_)
        bank.add(whole, ("snoc", s_, p_))
        return [frame(s_)], frame(whole)
    lem = [Lemma("changes_ok-frame", [("base", fr_base), ("step", fr_step)], P)]
    kq = z3.Const("k_q", z3.StringSort())
    Dq = lambda mp, s: z3.ForAll([kq], z3.Implies(present(mp, kq), has_name.t(s, kq)))
    mp_, s2_, p2_ = z3.Const("mp_w", CH.z3()), z3.Const("s_w", SFVF.z3()), z3.Const("p_w", FVF.z3())
    k0_, v0_ = z3.Const("k0_w", z3.StringSort()), z3.Const("v0_w", OFV.z3())

    def w_all(bank):
        whole = mk_snoc(s2_, p2_)
        bank.add(whole, ("snoc", s2_, p2_))
        hs = z3.ForAll([kq], has_name.t(whole, kq) == z3.Or(has_name.t(s2_, kq), n_of(p2_) == kq))      # the defining equation of has_field_name, for every key
        goal = z3.And(Dq(z3.K(z3.StringSort(), OFV.none().term), s2_),
                      z3.Implies(Dq(mp_, s2_), Dq(mp_, whole)),
                      z3.Implies(z3.And(Dq(mp_, s2_), has_name.t(s2_, k0_)), Dq(z3.Store(mp_, k0_, v0_), s2_)),
                      z3.Implies(z3.And(Dq(mp_, s2_), z3.Not(has_name.t(s2_, k0_))), z3.Not(present(mp_, k0_))))
        return [hs], goal
    lem.append(Lemma("changes_within-rules", [("all", w_all)], P))
    for fn, nm in ((nodup, "distinct_field_names-prefix"), (kinds_ok, "field_kinds_ok-prefix")):
        a_, b_, y_ = z3.Const("a_" + nm[:4], SFVF.z3()), z3.Const("b_" + nm[:4], SFVF.z3()), z3.Const("y_" + nm[:4], FVF.z3())

        def base(bank, fn=fn, a_=a_):
            return [], z3.Implies(fn.t(z3.Concat(a_, z3.Empty(SFVF.z3()))), fn.t(a_))

        def step(bank, fn=fn, a_=a_, b_=b_, y_=y_):
            ih = z3.Implies(fn.t(z3.Concat(a_, b_)), fn.t(a_))
            whole = z3.Concat(a_, mk_snoc(b_, y_))
            bank.add(whole, ("snoc", z3.Concat(a_, b_), y_))
            return [ih], z3.Implies(fn.t(whole), fn.t(a_))
        lem.append(Lemma(nm, [("base", base), ("step", step)], P))
    world.trusted_notes.append("dataclasses.replace(a, **ch) is the opaque relation replaced_with(a, ch, b): a new object of a's class whose init fields are a's own values except those named in ch (it may raise)")
    world.trusted_notes.append("all_dup(xs, ys) -- element-wise is_dup with equal length -- is opaque: the induction hypothesis of duplicate() over a tuple's elements")
    world.trusted_notes.append('is_dup is defined by its introduction rule only (replaced_with and changes_ok imply is_dup); finite trees')
    world.trusted_notes.append('distinct_field_names / field_kinds_ok (a class has distinct field names; a child field holds a node, None or a tuple of nodes) are assumed of EVERY node, so the recursive summary duplicate#callee does not re-require them for the children')
    return world, lib, reg, lem
