"""C07 / C20 (proved part): the xpath transformer's leaf methods, the step predicate, the bottom-up
matcher over Tree, and the node.find front-end.

index_spec: all digit tokens are significant (value of the concatenated digit string).
_match_node_element: the step predicate of the statement (instance of the class; field and index
constraints only when given; a node without field -- the root -- matches no field constraint).
_match_node_xpath: the bottom-up predicate MX(node, elements) along the parent chain, through the
Tree query contracts of C06 (assumed here, proved there)."""
from __future__ import annotations

import z3

from pyvc.contract import Contract, Loop, Registry
from pyvc.core import mk_cons, mk_snoc
from pyvc.specfn import SpecLib
from pyvc.symex import World
from pyvc.values import BOOL, INT, STR, NONE, V, VBool, VCls, VInt, VOpt, VPy, VSeq, VStr, VTuple, VU, opt_of, rec_sort, seq_of, usort

from .node_common import NodeVocab

XM_ = "pyoak.match.xpath"
LXM = "pyoak.legacy.match.xpath"


def build():
    reg = Registry()
    world = World(reg)
    lib = SpecLib()
    nv = NodeVocab(world, lib)
    REF, CLS, FLD = nv.REF, nv.CLS, nv.FLD
    OREF, OINT, OSTR, OFLD = opt_of(REF), opt_of(INT), opt_of(STR), opt_of(FLD)
    SS = seq_of(STR)
    concat_all = lib.fn("concat_all", [SS], STR)
    concat_all.rule("concat_all-empty", 0, "empty")(lambda a, p: z3.StringVal(""))
    concat_all.rule("concat_all-cons", 0, "cons")(lambda a, p: z3.Concat(p[0], concat_all.t(p[1])))
    world.spec_fns["concat_all"] = concat_all
    world.spec_fns["str_to_int"] = lambda s: VInt(z3.StrToInt(s.term))
    world.spec_fns["all_digits"] = lambda s: VBool(z3.And(z3.Length(s.term) > 0, z3.StrToInt(s.term) >= 0))
    XT = usort("XPathTransformer")
    world.usort_class = {**getattr(world, "usort_class", {}), "XPathTransformer": "XPathTransformer"}
    world.class_parents["XPathTransformer"] = []
    world.class_module["XPathTransformer"] = XM_

    def call(m, func, args, kwargs, node):
        from pyvc.values import VBound, VHeapRef
        if isinstance(func, VBound) and isinstance(func.recv, VStr) and func.name == "join" and z3.is_string_value(func.recv.term) and func.recv.term.as_string() == "":
            sv = m.seq_value(args[0]) if not isinstance(args[0], VSeq) else args[0]
            if sv is not None and sv.sort == SS:
                return VStr(concat_all.t(sv.term))
        return NotImplemented

    world.call_hooks.append(call)
    A = reg.add
    for mod, props in ((XM_, ["C07"]), (LXM, ["C20"])):
        A(Contract(f"{mod}:XPathTransformer.index_spec", params={"self": "XPathTransformer", "args": "List[str]"}, returns="int", props=props,
                   requires=["all_digits(concat_all(args)) or len(args) == 0"],
                   ensures=["implies(len(args) == 0, result == -1)", "implies(len(args) > 0, result == str_to_int(concat_all(args)))"],
                   note="the grammar yields one DIGIT token per digit; the index is the decimal value of all of them"))
        A(Contract(f"{mod}:XPathTransformer.field_spec", params={"self": "XPathTransformer", "args": "List[str]"}, returns="str", props=props,
                   requires=["len(args) > 0"], ensures=["result == args[0]"]))
    # ---- step predicate -----------------------------------------------------------------------------
    EL = rec_sort("XEl", [("ast_class", CLS), ("parent_field", OSTR), ("parent_index", OINT), ("anywhere", BOOL)], pycls="ASTXpathElement", tuple_like=True)
    NI = rec_sort("XInfo", [("node", REF), ("parent", OREF), ("field", OFLD), ("findex", OINT)], pycls="_NodeTraversalInfo", tuple_like=True)
    world.rec_of_class.update({"ASTXpathElement": EL, "_NodeTraversalInfo": NI})
    world.class_parents.update({"ASTXpathElement": [], "_NodeTraversalInfo": []})

    def elem_ok(n, f, i, el):
        pf, pi = EL.get(el, "parent_field").term, EL.get(el, "parent_index").term
        return z3.And(nv.subclass(nv.cls_of(n), EL.get(el, "ast_class").term),
                      z3.Or(OSTR.is_none(pf), z3.And(z3.Not(OFLD.is_none(f)), OSTR.val(pf) == nv.fname(OFLD.val(f)))),
                      z3.Or(OINT.is_none(pi), pi == i))

    world.spec_fns["elem_ok"] = lambda n, f, i, el: VBool(elem_ok(nv.ref(n), OFLD.coerce(f).term, OINT.coerce(i).term, el.term))
    A(Contract(f"{XM_}:_match_node_element", params={"n_info": "XInfo", "element": "XEl"}, returns="bool", props=["C07"],
               ensures=["result == elem_ok(n_info.node, n_info.field, n_info.findex, element)"],
               note="instance of the named class; stored in the named field / at the given index only when those are given; no field (root) fails a field constraint"))
    # ---- bottom-up matcher over Tree (query contracts of C06) -----------------------------------------
    TREE = usort("TreeObj")
    world.usort_class["TreeObj"] = "Tree"
    world.class_parents["Tree"] = []
    world.class_module["Tree"] = "pyoak.tree"
    SR, SE = seq_of(REF), seq_of(EL)
    tparent = z3.Function("t_parent", TREE.z3(), REF.z3(), OREF.z3())
    tfield = z3.Function("t_field", TREE.z3(), REF.z3(), OFLD.z3())
    tindex = z3.Function("t_index", TREE.z3(), REF.z3(), OINT.z3())
    tchain = z3.Function("t_chain", TREE.z3(), REF.z3(), SR.z3())
    intree = z3.Function("t_in_tree", TREE.z3(), REF.z3(), z3.BoolSort())
    sf = world.spec_fns
    sf["t_parent"] = lambda t, n: VOpt(tparent(t.term, nv.ref(n)), OREF)
    sf["t_field"] = lambda t, n: VOpt(tfield(t.term, nv.ref(n)), OFLD)
    sf["t_index"] = lambda t, n: VOpt(tindex(t.term, nv.ref(n)), OINT)
    sf["t_chain"] = lambda t, n: SR.wrap(tchain(t.term, nv.ref(n)))
    sf["t_in_tree"] = lambda t, n: VBool(intree(t.term, nv.ref(n)))
    A(Contract("pyoak.tree:Tree.get_parent_info", params={"self": "TreeObj", "node": "Ref"}, returns="Tuple[Opt[Ref],Opt[Fld],Opt[int]]", props=["C07"],
               trusted=True, trusted_reason="proved under C06 (contracts.tree_area): the recorded position of the node, (None, None, None) for the root",
               requires=["t_in_tree(self, node)"],
               ensures=["result[0] == t_parent(self, node)", "result[1] == t_field(self, node)", "result[2] == t_index(self, node)",
                        "implies(result[0] is not None, t_in_tree(self, result[0]))"]))
    A(Contract("pyoak.tree:Tree.get_ancestors", params={"self": "TreeObj", "node": "Ref"}, returns="Seq[Ref]", props=["C07"],
               trusted=True, trusted_reason="proved under C06: the parent chain; every element is a member of the tree",
               requires=["t_in_tree(self, node)"], ensures=["result == t_chain(self, node)", "all_in_tree(self, result)"]))
    MX = lib.fn("MX", [TREE, REF, SE], BOOL)
    any_anc = lib.fn("any_anc", [TREE, SR, SE], BOOL)  # some ancestor in the sequence matches the remaining elements

    def mx_rhs(a, p):
        t, n = a[0], a[1]
        el, tail = p
        par = tparent(t, n)
        ok = elem_ok(n, tfield(t, n), tindex(t, n), el)
        anyw = EL.get(el, "anywhere").term
        rest = z3.If(z3.Length(tail) == 0, z3.Or(anyw, OREF.is_none(par)),
                     z3.And(z3.Not(OREF.is_none(par)),
                            z3.If(anyw, any_anc.t(t, tchain(t, n), tail), MX.t(t, OREF.val(par), tail))))
        return z3.And(ok, rest)

    MX.rule("MX-cons", 2, "cons")(mx_rhs)
    any_anc.rule("any_anc-empty", 1, "empty")(lambda a, p: z3.BoolVal(False))
    any_anc.rule("any_anc-snoc", 1, "snoc")(lambda a, p: z3.Or(any_anc.t(a[0], p[0], a[2]), MX.t(a[0], p[1], a[2])))
    any_anc.rule("any_anc-concat", 1, "concat", "lemma")(lambda a, p: z3.Or(any_anc.t(a[0], p[0], a[2]), any_anc.t(a[0], p[1], a[2])))
    sf["MX"] = MX
    sf["any_anc"] = any_anc
    world.vocab = getattr(world, "vocab", {})
    world.vocab.update(dict(MX=MX, any_anc=any_anc, TREE=TREE, tparent=tparent, tfield=tfield, tindex=tindex, tchain=tchain, intree=intree, elem_ok=elem_ok))
    chain_members = "all_in_tree(tree, t_chain(tree, node))"
    allin = lib.fn("all_in_tree", [TREE, SR], BOOL)
    allin.rule("all_in_tree-empty", 1, "empty")(lambda a, p: z3.BoolVal(True))
    allin.rule("all_in_tree-snoc", 1, "snoc")(lambda a, p: z3.And(allin.t(a[0], p[0]), intree(a[0], p[1])))
    allin.rule("all_in_tree-prefix", 1, "concat", "lemma", raw=True)(lambda a, p: z3.Implies(allin.t(a[0], z3.Concat(p[0], p[1])), allin.t(a[0], p[0])))
    sf["all_in_tree"] = allin
    A(Contract(f"{XM_}:_match_node_xpath", params={"tree": "TreeObj", "node": "Ref", "elements": "Seq[XEl]"}, returns="bool", props=["C07"],
               requires=["len(elements) > 0", "t_in_tree(tree, node)"],
               ensures=["result == MX(tree, node, elements)"],
               loops={1: Loop(inv=["not any_anc(tree, done1, tail)", "all_in_tree(tree, seq1)"])},
               note="MX: the node satisfies the last step; with no step left it must be the root unless the step is 'anywhere'; otherwise the parent (or, for 'anywhere', some ancestor) matches the remaining steps. "
                    "Recursive calls use this contract as induction hypothesis; ancestors' own chains are members by the C06 closure lemma (assumed here as all_in_tree for every member's chain)."))
    # ---- node.find / node.findall front-ends ------------------------------------------------------------
    XP = usort("XPathObj")
    world.usort_class["XPathObj"] = "ASTXpath"
    world.class_parents["ASTXpath"] = []
    world.class_module["ASTXpath"] = XM_
    xfind = z3.Function("xp_findall", XP.z3(), REF.z3(), SR.z3())
    xcomp = z3.Function("xp_compile", z3.StringSort(), XP.z3())
    sf["xp_findall"] = lambda x, n: SR.wrap(xfind(x.term, nv.ref(n)))
    sf["xp_compile"] = lambda s_: XP.wrap(xcomp(s_.term))
    A(Contract(f"{XM_}:ASTXpath.findall", params={"self": "XPathObj", "root": "Ref"}, returns="Seq[Ref]", props=["C07"], trusted=True,
               trusted_reason="callee summary for the find / findall front-ends (result as an abstract function of path and root); the body is proved below as findall#body against the top-down fold TD; the agreement of TD with match() is covered by the bounded run rt.c07",
               ensures=["result == xp_findall(self, root)"]))
    world.exc_parents["ASTXpathDefinitionError"] = "Exception"

    def call_x(m, func, args, kwargs, node):
        if isinstance(func, VCls) and func.name == "ASTXpath":
            from pyvc.symex import RaiseSig
            from pyvc.values import VExc, fresh_name
            if m.ctx.branch(z3.Bool(fresh_name("xpath_text_rejected"))):
                raise RaiseSig(VExc("ASTXpathDefinitionError"))
            return XP.wrap(xcomp(args[0].term))
        return NotImplemented

    world.call_hooks.insert(0, call_x)
    world.class_parents["ASTXpath"] = []
    world.isinstance_hooks.insert(0, lambda m, v, cls: z3.BoolVal(False) if isinstance(v, VU) and v.sort == XP and getattr(cls, "name", "") == "str" else None)
    for variant, xs, X in ((None, "XPathObj", "xpath"), ("text", "str", "xp_compile(old(xpath))")):
        A(Contract("pyoak.node:ASTNode.find", variant_of=variant, params={"self": "Ref", "xpath": xs}, returns="Opt[Ref]", props=["C07"],
                   may_raise=["ASTXpathDefinitionError"] if variant else [],
                   ensures=[f"implies(len(xp_findall({X}, self)) == 0, result is None)",
                            f"implies(len(xp_findall({X}, self)) > 0, result == xp_findall({X}, self)[0])"],
                   note="find() is the first node findall() yields, or None"))
        A(Contract("pyoak.node:ASTNode.findall", variant_of=variant, params={"self": "Ref", "xpath": xs}, returns="Seq[Ref]", props=["C07"],
                   may_raise=["ASTXpathDefinitionError"] if variant else [],
                   ensures=[f"result == xp_findall({X}, self)"]))
    find_all_body(world, lib, reg, nv, EL, NI, XP, elem_ok)
    # ---- ASTXpath.match: membership test, then the bottom-up matcher over the reversed element list -------------------
    elems_rev = z3.Function("xp_elements_reversed", XP.z3(), SE.z3())
    tree_of = z3.Function("tree_of_root", REF.z3(), TREE.z3())
    sf["xp_elements_reversed"] = lambda x: SE.wrap(elems_rev(x.term))
    sf["tree_of_root"] = lambda r: TREE.wrap(tree_of(nv.ref(r)))

    def attr_m(m, obj, name):
        from pyvc.values import VBound
        if isinstance(obj, VU) and obj.sort == XP and name == "_elements_reversed":
            return SE.wrap(elems_rev(obj.term))
        if isinstance(obj, VU) and obj.sort == REF and name == "to_tree":
            return VBound(obj, "to_tree")
        if isinstance(obj, VU) and obj.sort == TREE and name == "is_in_tree":
            return VBound(obj, "is_in_tree")
        return None

    def call_m(m, func, a, kw, nd):
        from pyvc.values import VBound
        if isinstance(func, VBound) and isinstance(func.recv, VU):
            if func.recv.sort == REF and func.name == "to_tree":
                return TREE.wrap(tree_of(func.recv.term))
            if func.recv.sort == TREE and func.name == "is_in_tree":
                return VBool(intree(func.recv.term, REF.coerce(a[0]).term))
        return NotImplemented

    def isinst_m(m, v, cls):
        if getattr(cls, "name", "") == "Tree":
            if isinstance(v, VU) and v.sort == TREE:
                return z3.BoolVal(True)
            if isinstance(v, VU) and v.sort == REF:
                return z3.BoolVal(False)
        return None

    world.attr_hooks.insert(0, attr_m)
    world.call_hooks.insert(0, call_m)
    world.isinstance_hooks.insert(0, isinst_m)
    world.name_hooks.append(lambda m, n: VCls("Tree") if n == "Tree" else None)
    world.exc_parents["ValueError"] = "Exception"
    for variant, ts, T in ((None, "TreeObj", "tree_or_root"), ("root-node", "Ref", "tree_of_root(old(tree_or_root))")):
        A(Contract(f"{XM_}:ASTXpath.match", variant_of=variant, params={"self": "XPathObj", "tree_or_root": ts, "node": "Ref"}, returns="bool", props=["C07"],
                   requires=["len(xp_elements_reversed(self)) > 0"],
                   raises=[("ValueError", f"not t_in_tree({T}, node)")],
                   ensures=[f"result == MX({T}, node, xp_elements_reversed(self))"],
                   note="a node outside the tree is a ValueError; otherwise the bottom-up predicate MX over the reversed element list (a root node is wrapped into its Tree first)"))
    lem_legacy = legacy_matcher(world, lib, reg, nv)
    lem_legacy += transformer_rules(world, lib, reg, nv, EL)
    from pyvc.verify import Lemma
    t_, e_ = z3.Const("t_aa", TREE.z3()), z3.Const("e_aa", SE.z3())
    a_, b_ = z3.Const("a_aa", SR.z3()), z3.Const("b_aa", SR.z3())
    y_ = z3.Const("y_aa", REF.z3())
    E = z3.Empty(SR.z3())

    def aa_base(bank):
        return [], any_anc.t(t_, z3.Concat(a_, E), e_) == z3.Or(any_anc.t(t_, a_, e_), any_anc.t(t_, E, e_))

    def aa_step(bank):
        ih = any_anc.t(t_, z3.Concat(a_, b_), e_) == z3.Or(any_anc.t(t_, a_, e_), any_anc.t(t_, b_, e_))
        whole = z3.Concat(a_, mk_snoc(b_, y_))
        bank.add(whole, ("snoc", z3.Concat(a_, b_), y_))
        return [ih], any_anc.t(t_, whole, e_) == z3.Or(any_anc.t(t_, a_, e_), any_anc.t(t_, mk_snoc(b_, y_), e_))

    def ai_base(bank):
        return [], z3.Implies(allin.t(t_, z3.Concat(a_, E)), allin.t(t_, a_))

    def ai_step(bank):
        ih = z3.Implies(allin.t(t_, z3.Concat(a_, b_)), allin.t(t_, a_))
        whole = z3.Concat(a_, mk_snoc(b_, y_))
        bank.add(whole, ("snoc", z3.Concat(a_, b_), y_))
        return [ih], z3.Implies(allin.t(t_, whole), allin.t(t_, a_))
    lem = [Lemma("any_anc-concat", [("base", aa_base), ("step", aa_step)], ["C07"]),
           Lemma("all_in_tree-prefix", [("base", ai_base), ("step", ai_step)], ["C07"])]
    world.trusted_notes.append('findall: the dict used as ordered set (position key -> info) is abstracted as the sequence of its values, with an obligation key == inserted info at every insertion; id(x) is modelled as x itself')
    world.trusted_notes.append('xp_elements(x) is the reverse of xp_elements_reversed(x): postcondition of ASTXpath.__init__ (contracts.defn_errors_area), not restated as an axiom here because no contract of this area needs it; the agreement of the two searches stays with rt.c07')
    world.trusted_notes.append('XPathTransformer.xpath: reversed(args) is a stateful iterator over rev_steps(args) shared by the for loop and next()')
    world.trusted_notes.append('legacy matcher: parent / parent_field / parent_index / ancestors() are functions of the node for the duration of a match (l_parent, l_chain)')
    return world, lib, reg, lem + lem_legacy


def find_all_body(world, lib, reg, nv, EL, NI, XP, elem_ok):
    """ASTXpath.findall against the top-down semantics TD, a fold over the steps of folds over the work list.

    The dict used as ordered set maps a position key to the info at that position; _position_key(info) is (proved to
    be) the info's own components, so the dict is abstracted as the *sequence of its values* with add-if-absent
    (obligation at every insertion: key == the inserted info).
      TD([], d)            = [(d, None, None, None)]                      d = the dummy root wrapped around the real root
      TD(E ++ [el], d)     = ST(TD(E, d), el, d)
      ST(W ++ [n], el, d)  = A1(ST(W, el, d), desc(n.node), el, d)        if el.anywhere   (all proper descendants, pre-order)
                           = A2(ST(W, el, d), kids(n.node), n.node, el, d)  otherwise        (the children)
      A1 / A2              = append, in order and only if not yet present, every candidate position that satisfies the
                             step predicate; a position whose parent is the dummy root is the root: no parent, field, index."""
    import ast as _ast

    from pyvc.core import mk_snoc
    from pyvc.symex import RaiseSig
    from pyvc.values import NONE, EngineError, VBound, VExc, VHeapRef, VNone, VRec

    REF, FLD, INFO, CPOS = nv.REF, nv.FLD, nv.INFO, nv.CPOS
    OREF, OFLD, OINT = opt_of(REF), opt_of(FLD), opt_of(INT)
    SX, SI, SC, SE, SR = seq_of(NI), seq_of(INFO), seq_of(CPOS), seq_of(EL), seq_of(REF)
    dummy_of = z3.Function("dummy_root_of", REF.z3(), REF.z3())
    elements = z3.Function("xp_elements", XP.z3(), SE.z3())
    desc = lib.fn("desc", [REF], SI)
    mkx = lambda n, p, f, i: NI.mk(REF.wrap(n), VOpt(p, OREF), VOpt(f, OFLD), VOpt(i, OINT)).term
    g = lambda rs, t, f: rs.get(rs.wrap(t).term, f).term
    rootx = lambda n: mkx(n, OREF.none().term, OFLD.none().term, OINT.none().term)
    to_x = lambda c: mkx(g(INFO, c, "node"), OREF.some(REF.wrap(g(INFO, c, "parent"))).term, OFLD.some(FLD.wrap(g(INFO, c, "field"))).term, g(INFO, c, "findex"))
    adj = lambda x, d: z3.If(g(NI, x, "parent") == OREF.some(REF.wrap(d)).term, rootx(g(NI, x, "node")), x)
    ok = lambda x, el: elem_ok(g(NI, x, "node"), g(NI, x, "field"), g(NI, x, "findex"), el)
    addif = lambda S, x: z3.If(z3.Contains(S, z3.Unit(x)), S, mk_snoc(S, x))
    A1 = lib.fn("add_matching_descendants", [SX, SI, EL, REF], SX)
    A2 = lib.fn("add_matching_children", [SX, SC, REF, EL, REF], SX)
    ST = lib.fn("xpath_stage", [SX, EL, REF], SX)
    TD = lib.fn("xpath_top_down", [SE, REF], SX)
    nodes_of = lib.fn("nodes_of", [SX], SR)
    A1.rule("A1-empty", 1, "empty")(lambda a, p: a[0])
    A1.rule("A1-snoc", 1, "snoc")(lambda a, p: z3.If(ok(adj(to_x(p[1]), a[3]), a[2]), addif(A1.t(a[0], p[0], a[2], a[3]), adj(to_x(p[1]), a[3])), A1.t(a[0], p[0], a[2], a[3])))

    def child_x(c, par, d):
        return z3.If(par == d, rootx(g(CPOS, c, "child")),
                     mkx(g(CPOS, c, "child"), OREF.some(REF.wrap(par)).term, OFLD.some(FLD.wrap(g(CPOS, c, "field"))).term, g(CPOS, c, "index")))

    A2.rule("A2-empty", 1, "empty")(lambda a, p: a[0])
    A2.rule("A2-snoc", 1, "snoc")(lambda a, p: z3.If(ok(child_x(p[1], a[2], a[4]), a[3]), addif(A2.t(a[0], p[0], a[2], a[3], a[4]), child_x(p[1], a[2], a[4])),
                                                     A2.t(a[0], p[0], a[2], a[3], a[4])))
    ST.rule("ST-empty", 0, "empty")(lambda a, p: z3.Empty(SX.z3()))
    ST.rule("ST-snoc", 0, "snoc")(lambda a, p: z3.If(g(EL, a[1], "anywhere"), A1.t(ST.t(p[0], a[1], a[2]), desc.t(g(NI, p[1], "node")), a[1], a[2]),
                                                     A2.t(ST.t(p[0], a[1], a[2]), nv.kids.t(g(NI, p[1], "node")), g(NI, p[1], "node"), a[1], a[2])))
    TD.rule("TD-empty", 0, "empty")(lambda a, p: z3.Unit(rootx(a[1])))
    TD.rule("TD-snoc", 0, "snoc")(lambda a, p: ST.t(TD.t(p[0], a[1]), p[1], a[1]))
    nodes_of.rule("nodes_of-empty", 0, "empty")(lambda a, p: z3.Empty(SR.z3()))
    nodes_of.rule("nodes_of-cons", 0, "cons")(lambda a, p: z3.Concat(z3.Unit(g(NI, p[0], "node")), nodes_of.t(p[1])))
    sf = world.spec_fns
    sf.update({"add_matching_descendants": A1, "add_matching_children": A2, "xpath_stage": ST, "xpath_top_down": TD, "nodes_of": nodes_of, "desc": desc,
               "xp_elements": lambda x: SE.wrap(elements(x.term)), "dummy_root_of": lambda r: REF.wrap(dummy_of(nv.ref(r)))})

    def in_findall(m):
        return m.contract.qualname == "ASTXpath.findall"

    def attr(m, obj, name):
        if isinstance(obj, VU) and obj.sort == XP and name == "_elements":
            return SE.wrap(elements(obj.term))
        if in_findall(m) and isinstance(obj, VHeapRef) and m.ctx.cell(obj.addr).kind == "list" and name in ("values", "setdefault"):
            return VBound(obj, name)
        return None

    def to_xinfo(m, v, sname):
        if sname == "XInfo" and isinstance(v, VRec) and v.sort == INFO:
            return NI.wrap(to_x(v.term))
        return None

    def call(m, func, a, kw, nd):
        if isinstance(func, VCls) and func.name == "_DUMMY_XPATH_ROOT":
            return REF.wrap(dummy_of(REF.coerce(a[0]).term))
        if in_findall(m) and isinstance(func, VBound) and isinstance(func.recv, VHeapRef):
            cell = m.ctx.cell(func.recv.addr)
            if func.name == "values":
                return func.recv
            if func.name == "setdefault":
                key = NI.coerce(a[0])
                val = a[1] if isinstance(a[1], VRec) and a[1].sort == NI else to_xinfo(m, a[1], "XInfo")
                if val is None:
                    raise EngineError("setdefault of something that is not a position info")
                m.ctx.check(key.term == val.term, f"{m.contract.key}/ordered-set/key-is-the-position-of-the-inserted-info", "model")
                cur = cell.value if cell.value is not None else SX.empty()
                if m.ctx.branch(z3.Contains(cur.term, z3.Unit(val.term))):
                    return val
                t = mk_snoc(cur.term, val.term)
                m.ctx.bank.add(t, ("snoc", cur.term, val.term))
                cell.value = VSeq(t, SX)
                return val
        return NotImplemented

    def dict_display(m, e, hint):
        if not in_findall(m):
            return None
        vals = []
        for k, v in zip(e.keys, e.values):
            kv, vv = NI.coerce(m.eval(k)), NI.coerce(m.eval(v))
            m.ctx.check(kv.term == vv.term, f"{m.contract.key}/ordered-set/key-is-the-position-of-the-inserted-info", "model")
            vals.append(vv)
        return VHeapRef(m.ctx.alloc("list", SX.coerce(VTuple(vals)) if vals else SX.empty()), "list")

    world.attr_hooks.insert(0, attr)
    world.call_hooks.insert(0, call)
    world.dict_display_hook = dict_display
    world.coerce_hooks = getattr(world, "coerce_hooks", []) + [to_xinfo]
    world.comp_hooks = {**getattr(world, "comp_hooks", {}), "n_info.node for n_info in": lambda m, sv, gen, e: SR.wrap(nodes_of.t(sv.term))}
    world.name_hooks.append(lambda m, n: VCls(n) if n in ("_DUMMY_XPATH_ROOT", "_NodeTraversalInfo", "NodeTraversalInfo") else None)
    A = reg.add
    P = ["C07"]
    A(Contract("pyoak.node:ASTNode.dfs", params={"self": "Ref", "prune": "Opt[Fn]", "filter": "Opt[Fn]", "bottom_up": "bool"}, returns="Seq[Info]", props=P, trusted=True,
               trusted_reason="proved under C05 (contracts.node_traversal): with no prune / filter, top-down, the stream of all proper-descendant positions in pre-order, desc(self)",
               ensures=["implies(prune is None and filter is None and not bottom_up, result == desc(self))"]))
    A(Contract("pyoak.node:ASTNode.get_child_nodes_with_field", params={"self": "Ref", "sort_keys": "bool"}, returns="Seq[ChildPos]", props=P, trusted=True,
               trusted_reason="the specialised accessor generated per class, proved under C12 (== kids(self), declaration order)", ensures=["result == kids(self)"]))
    A(Contract(f"{XM_}:_position_key", params={"n_info": "XInfo"}, returns="XInfo", props=P, ensures=["result == n_info"],
               note="id() of the four components: the identity of the position (id modelled as the object itself, injective on live objects)"))
    A(Contract(f"{XM_}:ASTXpath.findall", variant_of="body", params={"self": "XPathObj", "root": "Ref"}, returns="Seq[Ref]", generator=True, props=P,
               requires=["len(xp_elements(self)) > 0"],
               locals={"work": "List[XInfo]", "new_work": "List[XInfo]"},
               ensures=["result == nodes_of(xpath_top_down(xp_elements(self), dummy_root_of(root)))"],
               loops={1: Loop(inv=["work == xpath_top_down(done1, dummy_root)", "implies(len(done1) > 0, new_work == work)"]),
                      2: Loop(inv=["new_work == xpath_stage(done2, el, dummy_root)", "seq2 == work_at2"]),
                      3: Loop(inv=["new_work == add_matching_descendants(new_work_at3, done3, el, dummy_root)", "seq3 == desc(n_info.node)"]),
                      4: Loop(inv=["new_work == add_matching_children(new_work_at4, done4, n_info.node, el, dummy_root)", "seq4 == kids(n_info.node)"])},
               note="the nodes of the positions selected by the top-down semantics TD over the path's steps, in first-insertion order, each position once"))
    reg.contracts[f"{XM_}:ASTXpath.findall#body"].fn = f"{XM_}:ASTXpath.findall"
    # vocabulary for the agreement lemmas (contracts.xpath_agree)
    world.vocab = getattr(world, "vocab", {})
    world.vocab.update(dict(A1=A1, A2=A2, ST=ST, TD=TD, desc=desc, mkx=mkx, g=g, rootx=rootx, to_x=to_x, adj=adj, ok=ok, child_x=child_x, addif=addif,
                            SX=SX, SI=SI, SC=SC, SE=SE, SR=SR, NI=NI, EL=EL, INFO=INFO, CPOS=CPOS, OREF=OREF, OFLD=OFLD, OINT=OINT, nodes_of=nodes_of))


def legacy_matcher(world, lib, reg, nv):
    """C20: the legacy bottom-up matcher pyoak.legacy.match.xpath._match_node_xpath against the chain predicate LMX.

    Legacy nodes know their position: l_parent / l_field_name / l_index are functions of the node (pure during a match);
    l_chain(n) is what n.ancestors() yields (proved below to be the parent chain).  Elements are reversed (last step first);
    the list may end in the AnywhereElement sentinel (a leading '//').
      LMX(None, els)  = els == [] or els[0] is the sentinel
      LMX(n, [])      = False
      LMX(n, els)     = True                                                  if els[0] is the sentinel
                      = (els[0].anywhere and some ancestor a of n has LMX(a, els))
                        or (step(n, els[0]) and LMX(parent(n), els[1:]))     otherwise"""
    from pyvc.values import VRec
    REF, CLS = nv.REF, nv.CLS
    OREF, OINT, OSTR = opt_of(REF), opt_of(INT), opt_of(STR)
    LEL = rec_sort("LXEl", [("ast_class", CLS), ("parent_field", OSTR), ("parent_index", OINT), ("anywhere", BOOL), ("is_sentinel", BOOL)], pycls="LegacyXEl")
    SL, SR = seq_of(LEL), seq_of(REF)
    l_parent = z3.Function("l_parent", REF.z3(), OREF.z3())
    l_fname = z3.Function("l_parent_field_name", REF.z3(), OSTR.z3())
    l_index = z3.Function("l_parent_index", REF.z3(), OINT.z3())
    l_chain = z3.Function("l_chain", REF.z3(), SR.z3())
    g = lambda t, f: LEL.get(LEL.wrap(t).term, f).term
    step = lambda n, el: z3.And(nv.subclass(nv.cls_of(n), g(el, "ast_class")),
                                z3.Or(OSTR.is_none(g(el, "parent_field")), g(el, "parent_field") == l_fname(n)),
                                z3.Or(OINT.is_none(g(el, "parent_index")), g(el, "parent_index") == l_index(n)))
    LMX = lib.fn("LMX", [OREF, SL], BOOL)
    lany = lib.fn("l_any_anc", [SR, SL], BOOL)

    def lmx_cons(a, p):
        n, (el, tail) = a[0], p
        nn = OREF.val(n)
        return z3.If(OREF.is_none(n), g(el, "is_sentinel"),
                     z3.If(g(el, "is_sentinel"), z3.BoolVal(True),
                           z3.Or(z3.And(g(el, "anywhere"), lany.t(l_chain(nn), a[1])), z3.And(step(nn, el), LMX.t(l_parent(nn), tail)))))

    LMX.rule("LMX-empty", 1, "empty")(lambda a, p: OREF.is_none(a[0]))
    LMX.rule("LMX-cons", 1, "cons")(lmx_cons)
    lany.rule("l_any_anc-empty", 0, "empty")(lambda a, p: z3.BoolVal(False))
    lany.rule("l_any_anc-snoc", 0, "snoc")(lambda a, p: z3.Or(lany.t(p[0], a[1]), LMX.t(OREF.some(REF.wrap(p[1])).term, a[1])))
    lany.rule("l_any_anc-concat", 0, "concat", "lemma")(lambda a, p: z3.Or(lany.t(p[0], a[1]), lany.t(p[1], a[1])))
    sf = world.spec_fns
    sf.update({"LMX": LMX, "l_any_anc": lany, "l_chain": lambda n: SR.wrap(l_chain(nv.ref(n))), "l_parent": lambda n: VOpt(l_parent(nv.ref(n)), OREF)})

    def in_legacy(m):
        return m.contract.module.startswith("pyoak.legacy")

    def attr(m, obj, name):
        if in_legacy(m) and isinstance(obj, VU) and obj.sort == REF:
            if name == "parent":
                return VOpt(l_parent(obj.term), OREF)
            if name == "parent_field":
                return VPy(("l_parent_field", obj))
            if name == "parent_index":
                return VOpt(l_index(obj.term), OINT)
            if name == "ancestors":
                from pyvc.values import VBound
                return VBound(obj, "ancestors")
        if isinstance(obj, VPy) and isinstance(obj.obj, tuple) and obj.obj[0] == "l_parent_field" and name == "name":
            # node.parent_field.name, guarded by the truthiness of node.parent_field
            return STR.wrap(OSTR.val(l_fname(obj.obj[1].term)))
        return None

    def truth(m, v):
        if isinstance(v, VPy) and isinstance(v.obj, tuple) and v.obj[0] == "l_parent_field":
            return z3.Not(OSTR.is_none(l_fname(v.obj[1].term)))
        return None

    def isinst(m, v, cls):
        name = getattr(cls, "name", "")
        if isinstance(v, VRec) and v.sort == LEL and name == "ASTXpathAnywhereElement":
            return g(v.term, "is_sentinel")
        return None

    def call(m, func, a, kw, nd):
        from pyvc.values import VBound
        if isinstance(func, VBound) and func.name == "ancestors" and isinstance(func.recv, VU) and func.recv.sort == REF:
            return m.call_contract(f"{LXM}:legacy-ancestors", [func.recv], {})
        return NotImplemented

    world.attr_hooks.insert(0, attr)
    world.truth_hooks.insert(0, truth)
    world.isinstance_hooks.insert(0, isinst)
    world.call_hooks.insert(0, call)
    world.name_hooks.append(lambda m, n: VCls(n) if n in ("ASTXpathAnywhereElement",) else None)
    A = reg.add
    P = ["C20"]
    A(Contract(f"{LXM}:legacy-ancestors", params={"self": "Ref"}, returns="Seq[Ref]", props=P, trusted=True,
               trusted_reason="AwareASTNode.ancestors(): the chain of .parent links, proved in contracts.legacy_chain (result == lchain(self)); the parent slots themselves are the state of C18",
               ensures=["result == l_chain(self)"]))
    A(Contract(f"{LXM}:_match_node_xpath", params={"node": "Opt[Ref]", "elements": "Seq[LXEl]"}, returns="bool", props=P,
               ensures=["result == LMX(node, elements)"],
               loops={1: Loop(inv=["not l_any_anc(done1, elements)", "seq1 == l_chain(node)"])},
               note="LMX: the bottom-up chain predicate of the docstring above; the recursive calls are the induction hypothesis (on the chain length plus the number of elements)"))
    from pyvc.verify import Lemma
    e_ = z3.Const("e_la", SL.z3())
    a_, b_ = z3.Const("a_la", SR.z3()), z3.Const("b_la", SR.z3())
    y_ = z3.Const("y_la", REF.z3())
    E = z3.Empty(SR.z3())

    def la_base(bank):
        return [], lany.t(z3.Concat(a_, E), e_) == z3.Or(lany.t(a_, e_), lany.t(E, e_))

    def la_step(bank):
        ih = lany.t(z3.Concat(a_, b_), e_) == z3.Or(lany.t(a_, e_), lany.t(b_, e_))
        whole = z3.Concat(a_, mk_snoc(b_, y_))
        bank.add(whole, ("snoc", z3.Concat(a_, b_), y_))
        return [ih], lany.t(whole, e_) == z3.Or(lany.t(a_, e_), lany.t(mk_snoc(b_, y_), e_))
    return [Lemma("l_any_anc-concat", [("base", la_base), ("step", la_step)], P)]


def transformer_rules(world, lib, reg, nv, EL):
    """C07 / C20: XPathTransformer.element and .xpath (both modules): from the per-step tuples lark hands over to the element list.

    A step is (field | None, index | None, class | None); a step without class is the empty step between two slashes ('//').
    element(args): the last str / int / class argument of each kind (an index below 0 means none, no class means ASTNode), (None, None, None) for no
    arguments at all.  xpath(args) reads the steps from the last to the first and is specified by its continuation:
      v2:      CONT(ret, [])            = ret
               CONT(ret, [e] ++ r)      = CONT(ret ++ [El(e, anywhere=False)], r)      if e has a class
                                        = CONT(mark_last(ret), r)                      otherwise ('//': the step read before it may sit anywhere below)
      legacy:  CONTL(ret, flag, [])     = ret ++ [SENTINEL] if flag else ret
               CONTL(ret, flag, [e]++r) = CONTL(ret ++ [El(e, anywhere=flag)], False, r)  if e has a class,   CONTL(ret, True, r) otherwise
    and the result is CONT([], reversed(args)) resp. CONTL([], False, reversed(args))."""
    from pyvc.lemmas import snoc_from_cons  # noqa: F401
    from pyvc.values import VRec
    CLS = nv.CLS
    OSTR, OINT, OCLS = opt_of(STR), opt_of(INT), opt_of(CLS)
    STEP = rec_sort("StepSpec", [("field", OSTR), ("index", OINT), ("cls", OCLS)], tuple_like=True)
    ARG = usort("XArg")
    SA, SST, SE = seq_of(ARG), seq_of(STEP), seq_of(EL)
    a_kind = z3.Function("xarg_kind", ARG.z3(), z3.IntSort())       # 0 class, 1 int, 2 str
    a_cls = z3.Function("xarg_class", ARG.z3(), CLS.z3())
    a_int = z3.Function("xarg_int", ARG.z3(), z3.IntSort())
    a_str = z3.Function("xarg_str", ARG.z3(), z3.StringSort())
    ASTNODE = world.consts["ASTNode"]
    last_cls = lib.fn("last_class_arg", [SA], CLS)
    last_idx = lib.fn("last_index_arg", [SA], OINT)
    last_fld = lib.fn("last_field_arg", [SA], OSTR)
    args_wf = lib.fn("xargs_wf", [SA], BOOL)
    last_cls.rule("last_cls-empty", 0, "empty")(lambda a, p: ASTNODE.term)
    last_cls.rule("last_cls-snoc", 0, "snoc")(lambda a, p: z3.If(a_kind(p[1]) == 0, a_cls(p[1]), last_cls.t(p[0])))
    last_idx.rule("last_idx-empty", 0, "empty")(lambda a, p: OINT.none().term)
    last_idx.rule("last_idx-snoc", 0, "snoc")(lambda a, p: z3.If(a_kind(p[1]) == 1, z3.If(a_int(p[1]) > -1, OINT.some(INT.wrap(a_int(p[1]))).term, OINT.none().term), last_idx.t(p[0])))
    last_fld.rule("last_fld-empty", 0, "empty")(lambda a, p: OSTR.none().term)
    last_fld.rule("last_fld-snoc", 0, "snoc")(lambda a, p: z3.If(a_kind(p[1]) == 2, OSTR.some(STR.wrap(a_str(p[1]))).term, last_fld.t(p[0])))
    args_wf.rule("xargs_wf-empty", 0, "empty")(lambda a, p: z3.BoolVal(True))
    args_wf.rule("xargs_wf-snoc", 0, "snoc")(lambda a, p: z3.And(args_wf.t(p[0]), a_kind(p[1]) >= 0, a_kind(p[1]) <= 2))
    args_wf.rule("xargs_wf-prefix", 0, "concat", "lemma", raw=True)(lambda a, p: z3.Implies(args_wf.t(z3.Concat(p[0], p[1])), args_wf.t(p[0])))
    g = lambda rs, t, f: rs.get(rs.wrap(t).term, f).term
    mk_el = lambda e, anyw: EL.mk(CLS.wrap(OCLS.val(g(STEP, e, "cls"))), VOpt(g(STEP, e, "field"), OSTR), VOpt(g(STEP, e, "index"), OINT), VBool(anyw)).term
    marked = lambda x: EL.mk(CLS.wrap(g(EL, x, "ast_class")), VOpt(g(EL, x, "parent_field"), OSTR), VOpt(g(EL, x, "parent_index"), OINT), VBool(z3.BoolVal(True))).term
    rev = lib.fn("rev_steps", [SST], SST)
    rev.rule("rev_steps-empty", 0, "empty")(lambda a, p: z3.Empty(SST.z3()))
    rev.rule("rev_steps-snoc", 0, "snoc")(lambda a, p: mk_cons(p[1], rev.t(p[0])))
    mark_last = lib.fn("mark_last_anywhere", [SE], SE)
    mark_last.rule("mark_last-snoc", 0, "snoc")(lambda a, p: mk_snoc(p[0], marked(p[1])))
    CONT = lib.fn("xpath_cont", [SE, SST], SE)
    CONT.rule("xpath_cont-empty", 1, "empty")(lambda a, p: a[0])
    CONT.rule("xpath_cont-cons", 1, "cons")(lambda a, p: z3.If(OCLS.is_none(g(STEP, p[0], "cls")), CONT.t(mark_last.t(a[0]), p[1]), CONT.t(mk_snoc(a[0], mk_el(p[0], z3.BoolVal(False))), p[1])))
    sf = world.spec_fns
    sf.update({"last_class_arg": last_cls, "last_index_arg": last_idx, "last_field_arg": last_fld, "xargs_wf": args_wf, "rev_steps": rev, "rev_for_iter": rev,
               "mark_last_anywhere": mark_last, "xpath_cont": CONT,
               "first_has_class": lambda s_: VBool(z3.And(z3.Length(s_.term) > 0, z3.Not(OCLS.is_none(g(STEP, s_.term[0], "cls")))))})

    def isinst(m, v, cls):
        name = getattr(cls, "name", "")
        if isinstance(v, VU) and v.sort == ARG:
            if name == "type":
                return a_kind(v.term) == 0
            if name == "int":
                return a_kind(v.term) == 1
            if name == "str":
                return a_kind(v.term) == 2
        return None

    def coerce(m, v, sname):
        if isinstance(v, VU) and v.sort == ARG:
            if sname in ("Cls", "Opt[Cls]"):
                return CLS.wrap(a_cls(v.term)) if sname == "Cls" else OCLS.some(CLS.wrap(a_cls(v.term)))
            if sname in ("int", "Opt[int]"):
                return INT.wrap(a_int(v.term)) if sname == "int" else OINT.some(INT.wrap(a_int(v.term)))
            if sname in ("str", "Opt[str]"):
                return STR.wrap(a_str(v.term)) if sname == "str" else OSTR.some(STR.wrap(a_str(v.term)))
        return None

    def order_hook(m, op, a, b):
        # an int argument compared with an int constant (isinstance(arg, int) was tested before)
        import ast as _ast
        if isinstance(a, VU) and a.sort == ARG and isinstance(b, VInt):
            x = a_int(a.term)
            return {_ast.Lt: x < b.term, _ast.LtE: x <= b.term, _ast.Gt: x > b.term, _ast.GtE: x >= b.term}[type(op)]
        return None

    world.order_hooks = [order_hook]

    world.isinstance_hooks.insert(0, isinst)
    world.coerce_hooks = getattr(world, "coerce_hooks", []) + [coerce]
    A = reg.add
    for mod, props in ((XM_, ["C07"]), (LXM, ["C20"])):
        A(Contract(f"{mod}:XPathTransformer.element", params={"self": "XPathTransformer", "args": "List[XArg]"}, returns="StepSpec", props=props,
                   requires=["xargs_wf(args)"], locals={"type_": "Cls", "parent_field": "Opt[str]", "parent_index": "Opt[int]"},
                   ensures=["implies(len(args) == 0, result.field is None and result.index is None and result.cls is None)",
                            "implies(len(args) > 0, result.field == last_field_arg(args) and result.index == last_index_arg(args) and result.cls == last_class_arg(args))"],
                   loops={1: Loop(inv=["type_ == last_class_arg(done1)", "parent_index == last_index_arg(done1)", "parent_field == last_field_arg(done1)", "xargs_wf(seq1)"])},
                   note="no arguments: the empty step of '//'; otherwise the last field name, the last index (none when below 0) and the last class (ASTNode when none is given)"))
    A(Contract(f"{XM_}:XPathTransformer.xpath", params={"self": "XPathTransformer", "args": "List[StepSpec]"}, returns="List[XEl]", props=["C07"],
               requires=["first_has_class(rev_steps(args))"],
               locals={"ret": "List[XEl]", "parent_field": "Opt[str]", "parent_index": "Opt[int]", "ast_class": "Opt[Cls]"},
               ensures=["result == xpath_cont(empty_els(), rev_steps(args))"],
               loops={1: Loop(inv=["xpath_cont(ret, elements) == xpath_cont(empty_els(), rev_steps(args))", "len(ret) > 0 or first_has_class(elements)"]),
                      2: Loop(inv=["implies(ast_class is None, xpath_cont(mark_last_anywhere(ret), elements) == xpath_cont(empty_els(), rev_steps(args)) and len(ret) > 0)",
                                   "implies(ast_class is not None, xpath_cont(ret + [el_of(parent_field, parent_index, ast_class)], elements) == xpath_cont(empty_els(), rev_steps(args)))"])},
               note="the steps read from the last to the first; a class-less step ('//') marks the element read before it as 'anywhere'; precondition: the last step has a class (the grammar's `self` rule)"))
    # legacy: elements are LXEl records (with the AnywhereElement sentinel); the pending 'anywhere' flag travels with the continuation
    LEL = world.rec_of_class_legacy if hasattr(world, "rec_of_class_legacy") else None
    from pyvc.values import get_sort as _gs
    LEL = _gs("LXEl")
    SLE = seq_of(LEL)
    mk_lel = lambda e, anyw: LEL.mk(CLS.wrap(OCLS.val(g(STEP, e, "cls"))), VOpt(g(STEP, e, "field"), OSTR), VOpt(g(STEP, e, "index"), OINT), VBool(anyw), VBool(z3.BoolVal(False))).term
    SENT = LEL.fresh("ANYWHERE_SENTINEL")
    world.axioms.append(LEL.get(SENT.term, "is_sentinel").term)
    CONTL = lib.fn("legacy_xpath_cont", [SLE, BOOL, SST], SLE)
    CONTL.rule("legacy_cont-empty", 2, "empty")(lambda a, p: z3.If(a[1], mk_snoc(a[0], SENT.term), a[0]))
    CONTL.rule("legacy_cont-cons", 2, "cons")(lambda a, p: z3.If(OCLS.is_none(g(STEP, p[0], "cls")), CONTL.t(a[0], z3.BoolVal(True), p[1]),
                                                               CONTL.t(mk_snoc(a[0], mk_lel(p[0], a[1])), z3.BoolVal(False), p[1])))
    sf.update({"legacy_xpath_cont": CONTL, "empty_lels": lambda: SLE.wrap(z3.Empty(SLE.z3())),
               "lel_of": lambda f, i, c, a: LEL.mk(CLS.coerce(c), OSTR.coerce(f), OINT.coerce(i), a, VBool(z3.BoolVal(False)))})

    def ctor(m, func, a, kw, nd):
        if m.contract.module == LXM and isinstance(func, VCls) and func.name == "ASTXpathElement":
            return LEL.mk(CLS.coerce(kw["ast_class"]), OSTR.coerce(kw["parent_field"]), OINT.coerce(kw["parent_index"]), kw["anywhere"], VBool(z3.BoolVal(False)))
        if m.contract.module == LXM and isinstance(func, VCls) and func.name == "ASTXpathAnywhereElement":
            return SENT
        return NotImplemented

    world.call_hooks.insert(0, ctor)
    world.name_hooks.insert(0, lambda m, n: VCls(n) if m.contract.module == LXM and n in ("ASTXpathElement", "ASTXpathAnywhereElement") else None)
    A(Contract(f"{LXM}:XPathTransformer.xpath", params={"self": "XPathTransformer", "args": "List[StepSpec]"}, returns="List[LXEl]", props=["C20"],
               locals={"ret": "List[LXEl]", "parent_field": "Opt[str]", "parent_index": "Opt[int]", "ast_class": "Opt[Cls]", "anywhere": "bool"},
               ensures=["result == legacy_xpath_cont(empty_lels(), False, rev_steps(args))"],
               loops={1: Loop(inv=["legacy_xpath_cont(ret, False, elements) == legacy_xpath_cont(empty_lels(), False, rev_steps(args))"]),
                      2: Loop(inv=["implies(ast_class is None, legacy_xpath_cont(ret, True, elements) == legacy_xpath_cont(empty_lels(), False, rev_steps(args)))",
                                   "implies(ast_class is not None, legacy_xpath_cont(ret + [lel_of(parent_field, parent_index, ast_class, anywhere)], False, elements) "
                                   "== legacy_xpath_cont(empty_lels(), False, rev_steps(args)))"])},
               note="the steps read from the last to the first; class-less steps ('//') make the next element read 'anywhere'; leading ones end the list with the AnywhereElement sentinel"))
    sf["empty_els"] = lambda: SE.wrap(z3.Empty(SE.z3()))
    sf["el_of"] = lambda f, i, c: EL.mk(CLS.coerce(c), OSTR.coerce(f), OINT.coerce(i), VBool(z3.BoolVal(False)))
    from pyvc.verify import Lemma
    a_, b_, y_ = z3.Const("a_xw", SA.z3()), z3.Const("b_xw", SA.z3()), z3.Const("y_xw", ARG.z3())

    def xw_base(bank):
        return [], z3.Implies(args_wf.t(z3.Concat(a_, z3.Empty(SA.z3()))), args_wf.t(a_))

    def xw_step(bank):
        ih = z3.Implies(args_wf.t(z3.Concat(a_, b_)), args_wf.t(a_))
        whole = z3.Concat(a_, mk_snoc(b_, y_))
        bank.add(whole, ("snoc", z3.Concat(a_, b_), y_))
        return [ih], z3.Implies(args_wf.t(whole), args_wf.t(a_))
    return [Lemma("xargs_wf-prefix", [("base", xw_base), ("step", xw_step)], ["C07", "C20"])]
