#!/bin/sh
# Builds /verif/.venv: Python 3.12 (same interpreter as /venv) + solver wheels from the offline
# wheelhouse + a .pth that exposes /venv's site-packages (pyoak editable install and its deps).
# Idempotent and file-locked; safe to call from many parallel checks.
set -e
HERE="$(cd "$(dirname "$0")" && pwd)"
VENV="$HERE/.venv"
STAMP="$VENV/.stamp-v1"
[ -f "$STAMP" ] && exit 0
exec 9>"$HERE/.venv.lock"
flock 9
[ -f "$STAMP" ] && exit 0
rm -rf "$VENV"
/venv/bin/python -m venv "$VENV"
PIP_NO_INDEX=1 "$VENV/bin/pip" install -q --no-index --find-links /opt/veriftools/wheels \
    z3-solver cvc5 icontract deal crosshair-tool jsonschema hypothesis >/dev/null 2>&1 || \
PIP_NO_INDEX=1 "$VENV/bin/pip" install -q --no-index --find-links /opt/veriftools/wheels z3-solver cvc5 jsonschema
SP="$("$VENV/bin/python" -c 'import sysconfig;print(sysconfig.get_paths()["purelib"])')"
echo "import site; site.addsitedir('/venv/lib/python3.12/site-packages')" > "$SP/zz_repo_venv.pth"
"$VENV/bin/python" -c 'import z3, pyoak; print("venv ok", z3.get_version_string())'
touch "$STAMP"
